"""C16 / independence across labels: a lifetime model whose dimension ITEMS differ from those of the
stock (same letters, other item order) is silently accepted; every label is then computed with the
parameters of ANOTHER label."""
import sys
import numpy as np
import flodym as fd
from flodym import Dimension, DimensionSet, FlodymArray, StockArray, InflowDrivenDSM
from flodym.lifetime_models import FixedLifetime

print("flodym from", fd.__file__)

years = [2000, 2001, 2002, 2003, 2004, 2005]


def make_dims(regions):
    return DimensionSet(
        dim_list=[
            Dimension(name="Time", letter="t", items=list(years)),
            Dimension(name="Region", letter="r", items=list(regions)),
        ]
    )


dims_stock = make_dims(["A", "B"])  # the stock is resolved as (A, B)
dims_lm = make_dims(["B", "A"])  # the lifetime model was built on (B, A)

# lifetimes, labelled on the lifetime model's own dimensions: B lives 1 year, A lives 10 years
mean = FlodymArray(dims=dims_lm["r",], values=np.array([1.0, 10.0]))
assert mean["A"].values == 10.0 and mean["B"].values == 1.0
lm = FixedLifetime(dims=dims_lm, mean=mean)

inflow = StockArray(dims=dims_stock, values=np.ones(dims_stock.shape))


def alone(region, lifetime):
    d = make_dims([region])
    s = InflowDrivenDSM(
        dims=d,
        inflow=StockArray(dims=d, values=np.ones(d.shape)),
        lifetime_model=FixedLifetime(dims=d, mean=lifetime),
    )
    s.compute()
    return s.stock.values[:, 0]


expected = {"A": alone("A", 10.0), "B": alone("B", 1.0)}

try:
    dsm = InflowDrivenDSM(dims=dims_stock, inflow=inflow, lifetime_model=lm)
    dsm.compute()
except Exception as e:  # an error is what the validator ("dimensions do not match") promises
    print("mismatching lifetime model rejected:", type(e).__name__, str(e)[:120])
    print("-> OK")
    sys.exit(0)

print("lifetime model with Region items", dims_lm["r"].items, "accepted by stock with Region items", dsm.dims["r"].items)
bad = False
for reg in ("A", "B"):
    got = dsm.stock[reg].values
    print(f"region {reg}: own lifetime {float(mean[reg].values):4.1f} -> expected stock {expected[reg]}, observed {got}")
    if not np.allclose(got, expected[reg]):
        bad = True

print()
print("Statement demands: 'every combination of non-time labels evolves exactly as if it were computed")
print("alone with its own parameters' (or the inconsistent lifetime model must be rejected).")
if bad:
    print("Region A was computed with region B's lifetime and vice versa, without any error -> BUG present")
    sys.exit(1)
print("-> OK")
sys.exit(0)
