"""C09 / finding 1: integer-typed stock arrays make the DSMs truncate what they compute.

FlodymArray / StockArray keep whatever dtype the caller's numpy array has (np.array([10, 20]),
StockArray.full(dims, 0), integer columns ... are all int64).  The dynamic stock models write their
results *into* these arrays (``values[...] = ...``) and StockDrivenDSM even allocates its work array
with ``np.zeros_like(self.inflow.values)``.  With an integer array the computed numbers are silently
truncated, while the cohort tables are computed in float -> totals and cohort tables disagree.
"""
import sys
import numpy as np
import flodym
from flodym import Dimension, DimensionSet, StockArray, InflowDrivenDSM, StockDrivenDSM, NormalLifetime

print("flodym from", flodym.__file__)

dims = DimensionSet(
    dim_list=[
        Dimension(name="Time", letter="t", items=[2000, 2001, 2003, 2010], dtype=int),
        Dimension(name="Region", letter="r", items=["A", "B"], dtype=str),
    ]
)
bad = False

# ---------------------------------------------------------------- variant A: to_stock_type
inflow = StockArray(dims=dims, values=np.array([[10, 20], [30, 40], [5, 7], [11, 13]]))  # int64
print("dtype of the inflow values given by the user:", inflow.values.dtype)
a = InflowDrivenDSM(dims=dims, inflow=inflow, lifetime_model=NormalLifetime(dims=dims, mean=3.3, std=1.1))
a.compute()
err_a = np.abs(a.get_stock_by_cohort().sum(axis=1) - a.stock.values).max()
print("A0 inflow-driven, integer inflow : max |stock - sum_c stock_by_cohort| =", err_a)

b = a.to_stock_type(StockDrivenDSM)  # same stock, now used to drive the model
b.compute()
err_b = np.abs(b.get_stock_by_cohort().sum(axis=1) - b.stock.values).max()
print("A1 stock-driven via to_stock_type: max |stock - sum_c stock_by_cohort| =", err_b)
print("   inflow found by the stock-driven model (should reproduce 10,20/30,40/5,7/11,13 up to rounding):")
print(b.inflow.values)
if not err_b < 1e-9:
    bad = True

# ---------------------------------------------------------------- variant B: pre-allocated integer result array
c = InflowDrivenDSM(
    dims=dims,
    inflow=StockArray(dims=dims, values=np.array([[10.5, 20], [30, 40], [5, 7], [11, 13]])),
    stock=StockArray.full(dims, 0),  # np.full(shape, 0) -> int64 zeros
    outflow=StockArray.full(dims, 0),
    lifetime_model=NormalLifetime(dims=dims, mean=3.3, std=1.1),
)
c.compute()
err_c_s = np.abs(c.get_stock_by_cohort().sum(axis=1) - c.stock.values).max()
err_c_o = np.abs(c.get_outflow_by_cohort().sum(axis=1) - c.outflow.values).max()
print("B  inflow-driven, stock/outflow = StockArray.full(dims, 0):")
print("   max |stock   - sum_c stock_by_cohort|   =", err_c_s)
print("   max |outflow - sum_c outflow_by_cohort| =", err_c_o)
if not (err_c_s < 1e-9 and err_c_o < 1e-9):
    bad = True

print()
print("Statement demands: 'the stock equals the sum over cohorts of the stock-by-cohort table and the")
print("outflow equals the sum over cohorts of the outflow-by-cohort table' (differences ~1e-14).")
if bad:
    print("VIOLATED: totals were truncated to integers, cohort tables were not.")
    sys.exit(1)
print("ok")
sys.exit(0)
