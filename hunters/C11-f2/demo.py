"""C11 / f2: from_df takes the VALUE column for a dimension column (although every dimension is
identified by name) as soon as the set of values equals - or merely truncates to - the item set of
a dimension."""
import sys
import io
import logging
import numpy as np
import pandas as pd
import flodym
from flodym import Dimension, DimensionSet, FlodymArray

logging.disable(logging.CRITICAL)
print("flodym from", flodym.__file__)

time = Dimension(name="Time", letter="t", items=[1, 2, 3], dtype=int)
reg = Dimension(name="Region", letter="r", items=["a", "b"])
dims = DimensionSet(dim_list=[time, reg])

cases = {
    # values equal to the time items (e.g. a parameter "age = time index")
    "values {1,2,3}": np.array([[1.0, 1.0], [2.0, 2.0], [3.0, 3.0]]),
    # values that are NOT items at all, but int() truncates them to 1, 2, 3
    "values {1.2,1.5,2.2,2.5,3.2,3.5}": np.array([[1.5, 1.2], [2.5, 2.2], [3.5, 3.2]]),
}

failures = 0


def attempt(label, a, df):
    global failures
    try:
        b = FlodymArray.from_df(dims, df)
    except Exception as e:  # noqa
        failures += 1
        print(f"  {label}: ERROR {type(e).__name__}: {str(e)[:150]}...")
        return
    same = np.array_equal(a.values, b.values)
    print(f"  {label}: returned, identical={same}")
    if not same:
        failures += 1


for name, vals in cases.items():
    a = FlodymArray(dims=dims, values=vals)
    print(name)
    attempt("to_df(index=True), dims named in MultiIndex ", a, a.to_df(index=True))
    attempt("to_df(index=False), dims named in columns  ", a, a.to_df(index=False))
    df = a.to_df(index=False).rename(columns={"Time": "t", "Region": "r", "value": "amount"})
    attempt("dims by letter, value column 'amount'       ", a, df)
    csv = a.to_df(index=False).to_csv(index=False)
    attempt("after CSV round trip                       ", a, pd.read_csv(io.StringIO(csv)))

# control: the very same layout works when values do not collide with the items
a = FlodymArray(dims=dims, values=np.array([[10.5, 11.0], [12.0, 13.0], [14.0, 15.0]]))
b = FlodymArray.from_df(dims, a.to_df())
print("control (values 10.5..15):", np.array_equal(a.values, b.values))

print()
print("Statement demands: 'exporting it with to_df in any of its layouts and importing the result with")
print("from_df returns the identical array ... with dimensions held in the index or in columns,")
print("identified by name, by letter or (when the values cannot be mistaken for items) only through")
print("their items' - with names/letters given there is no restriction on the values, and 1.5 cannot")
print("be mistaken for an item of [1, 2, 3] anyway.")
if failures:
    print(f"OBSERVED: VIOLATION - {failures} round trips failed")
    sys.exit(1)
print("OBSERVED: ok")
sys.exit(0)
