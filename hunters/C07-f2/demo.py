"""C07 / f2: get_shares_over divides by multiplying with the reciprocal 1.0/total.  For a
non-zero but subnormal total (< ~5.6e-309) the reciprocal overflows to inf, so every share is
inf (or nan for zero entries) instead of entry/total, the shares do not add up to one and
multiplying back does not restore the array.  Plain division entry/total is exact here."""
import sys
import warnings
import numpy as np
import flodym
from flodym import FlodymArray, Dimension, DimensionSet

print("flodym from", flodym.__file__)
warnings.simplefilter("ignore")

r = Dimension(name="Region", letter="r", items=["EU", "US"])
e = Dimension(name="Element", letter="e", items=["Fe", "Cu", "Al", "Zn"])
dims = DimensionSet(dim_list=[r, e])
# trace amounts: perfectly valid float64 numbers, totals over 'e' are 4e-310 and 10.0
values = np.array([[1e-310, 2e-310, 0.0, 1e-310], [1.0, 2.0, 3.0, 4.0]])
arr = FlodymArray(dims=dims, values=values)

total = arr.sum_over(("e",))
print("totals over e      :", total.values, "(all non-zero:", bool(np.all(total.values != 0)), ")")
expected = values / values.sum(axis=1, keepdims=True)
print("entry / total      :\n", expected)

bad = False
for letters in [("e",), ("r", "e")]:
    arr_k = arr if letters == ("e",) else FlodymArray(dims=dims, values=values * np.array([[1.0], [0.0]]))
    shares = arr_k.get_shares_over(letters)
    sums = shares.sum_over(letters).values
    back = (shares * arr_k.sum_over(letters)).values
    print(f"get_shares_over({letters}):\n", shares.values)
    print("  shares summed over", letters, ":", sums, " (statement: 1 wherever the total is non-zero)")
    print("  shares * total restores array:", np.allclose(back, arr_k.values, rtol=1e-9, atol=0, equal_nan=False))
    if not np.allclose(sums, 1.0) or not np.allclose(back, arr_k.values, rtol=1e-9, atol=0):
        bad = True

if bad:
    print("VIOLATION: non-zero totals, yet shares are inf/nan and do not add up to one")
    sys.exit(1)
print("OK")
sys.exit(0)
