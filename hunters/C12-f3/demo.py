"""C12 / f3: a label that is NOT an item of an int-typed dimension (2001.5) is silently truncated
to an existing item (2001) instead of being refused as unknown / ignored as extra.

Run:  cd /repo && PYTHONPATH=/repo /venv/bin/python /tmp/mut7/out/C12/f3/demo.py
"""
import os
import sys
import logging
import tempfile
import numpy as np
import pandas as pd
import flodym
from flodym import Dimension, DimensionSet, FlodymArray
from flodym.data_reader import CSVParameterReader

logging.disable(logging.CRITICAL)
print("flodym from:", flodym.__file__)

time = Dimension(name="Time", letter="t", items=[2000, 2001, 2002], dtype=int)
region = Dimension(name="Region", letter="r", items=["A", "B"], dtype=str)
dims = DimensionSet(dim_list=[time, region])
bad = False


def expect_error(label, func):
    global bad
    try:
        values = func()
    except Exception as e:  # noqa
        print(f"{label}: raised {type(e).__name__}: {str(e)[:120]} -> ok")
        return
    print(f"{label}: SILENTLY ACCEPTED, array = {values.tolist()}")
    bad = True


# control: a label that is unknown and integral is refused
df0 = pd.DataFrame({"Time": [2000, 2000, 2001, 2001, 2003, 2003], "Region": list("ABABAB"),
                    "value": [1.0, 2, 3, 4, 5, 6]})
expect_error("control, unknown year 2003", lambda: FlodymArray.from_df(dims=dims, df=df0).values)

# 1) last year is given as 2002.5 (mid-year data / typo): 2002.5 is not an item of Time,
#    and the combinations (2002, A), (2002, B) are missing
df1 = pd.DataFrame({"Time": [2000, 2000, 2001, 2001, 2002.5, 2002.5], "Region": list("ABABAB"),
                    "value": [1.0, 2, 3, 4, 5, 6]})
expect_error("from_df, Time label 2002.5", lambda: FlodymArray.from_df(dims=dims, df=df1).values)

# 2) the same through the CSV reader
tmp = tempfile.mkdtemp()
path = os.path.join(tmp, "param.csv")
df1.to_csv(path, index=False)
expect_error("CSVParameterReader, Time label 2002.5",
             lambda: CSVParameterReader({"p": path}).read_parameter_values("p", dims).values)

# 3) wide format: the value columns 2000.4, 2001.2, 2002.9 match no dimension
df3 = pd.DataFrame({"Region": ["A", "B"], 2000.4: [1.0, 2], 2001.2: [3.0, 4], 2002.9: [5.0, 6]})
expect_error("from_df wide, columns 2000.4/2001.2/2002.9", lambda: FlodymArray.from_df(dims=dims, df=df3).values)

# 4) allow_extra_values + allow_missing_values: rows with the unknown item 2002.5 must be ignored,
#    i.e. the entries of 2002 must be zero
arr = FlodymArray.from_df(dims=dims, df=df1, allow_extra_values=True, allow_missing_values=True)
exp = np.array([[1.0, 2.0], [3.0, 4.0], [0.0, 0.0]])
print(f"allow_extra_values+allow_missing_values: got {arr.values.tolist()}, demanded {exp.tolist()}")
if not np.array_equal(arr.values, exp):
    bad = True

print()
print("Statement demands: with default settings an error is raised whenever the data has an item unknown "
      "to the dimension / a missing label combination / several value columns that match no dimension; "
      "with allow_extra_values rows carrying unknown items are ignored.")
if bad:
    print("OBSERVED: int() truncation in the dtype conversion turns the unknown label 2002.5 into the item "
          "2002, data is imported under a label it does not carry -> BUG PRESENT")
    sys.exit(1)
print("OK")
sys.exit(0)
