"""C04 / finding 3: the DataFrame export/import round trip puts values under wrong labels as soon as
a dimension has more than 32767 items (the item positions are squeezed into int16 in from_df)."""
import sys
import logging
import numpy as np
import flodym
from flodym import Dimension, DimensionSet, FlodymArray

logging.disable(logging.CRITICAL)
print("flodym imported from", flodym.__file__)

n = 40000
product = Dimension(name="Product", letter="p", items=[f"p{i}" for i in range(n)])
region = Dimension(name="Region", letter="r", items=["A", "B"])
base_dims = DimensionSet(dim_list=[product, region])
base = FlodymArray(dims=base_dims, values=np.arange(1.0, 2 * n + 1).reshape(n, 2))

bad = False
for order in ("pr", "rp"):
    dims = base_dims.get_subset(tuple(order))
    arr = base.cast_to(dims)
    df = arr.to_df()  # long format, complete, every index level named
    try:
        back = FlodymArray.from_df(dims=dims, df=df)
    except Exception as e:  # noqa
        print(f"storage order {order}: import raised {type(e).__name__}: {str(e)[:100]}")
        bad = True
        continue
    n_wrong = int((back.values != arr.values).sum())
    print(f"storage order {order}: {n_wrong} of {arr.values.size} entries differ after to_df -> from_df")
    if n_wrong:
        lab = "p39999"
        print(f"   e.g. entry (Product={lab}, Region=A): exported {arr[{'p': lab, 'r': 'A'}].values}, "
              f"imported {back[{'p': lab, 'r': 'A'}].values}")
        lab = "p14463"
        print(f"        entry (Product={lab}, Region=A): exported {arr[{'p': lab, 'r': 'A'}].values}, "
              f"imported {back[{'p': lab, 'r': 'A'}].values}")
        bad = True

print()
print("Statement demands: DataFrame export and import yield the same entries under the same labels.")
if bad:
    print("OBSERVED: entries end up under other labels / are lost, silently. BUG PRESENT")
    sys.exit(1)
print("Round trip is exact. OK")
sys.exit(0)
