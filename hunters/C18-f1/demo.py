"""C18 / finding 1: items of a str-typed dimension are not taken from the file as written.

Clause: "Dimension files (CSV or Excel ...; one row or one column, optionally headed by the
dimension's name) give the items in file order converted to the declared type".
"""
import os
import sys
import tempfile

import pandas as pd
import flodym
from flodym import (
    MFASystem,
    MFADefinition,
    DimensionDefinition,
    FlowDefinition,
    CSVDimensionReader,
    ExcelDimensionReader,
)

print("flodym from", flodym.__file__)
tmp = tempfile.mkdtemp()


def write(name, text):
    path = os.path.join(tmp, name)
    with open(path, "w") as f:
        f.write(text)
    return path


region_def = DimensionDefinition(name="Region", letter="r", dtype=str)
failures = []


def check(label, got, expected):
    ok = got == expected
    print(f"{label}:\n    observed {got}\n    demanded {expected}   {'ok' if ok else 'VIOLATION'}")
    if not ok:
        failures.append(label)


# (a) zero-padded codes in a one-column CSV (no header)
p = write("codes.csv", "01\n02\n10\n")
got = CSVDimensionReader({"Region": p}).read_dimension(region_def).items
check("CSV column 01/02/10, dtype=str", got, ["01", "02", "10"])

# (b) the very same items, but with the optional header: the result must not depend on the header
p = write("codes_header.csv", "Region\n01\n02\n10\n")
got_h = CSVDimensionReader({"Region": p}).read_dimension(region_def).items
check("CSV column with header Region + 01/02/10, dtype=str", got_h, ["01", "02", "10"])
check("same items with and without the optional header", got, got_h)

# (c) ISO country codes in one row; NA is Namibia
p = write("iso.csv", "DE,NA,FR\n")
got = CSVDimensionReader({"Region": p}).read_dimension(region_def).items
check("CSV row DE,NA,FR, dtype=str", got, ["DE", "NA", "FR"])

# (d) Excel sheet whose cells are *text* cells "01", "02"
p = os.path.join(tmp, "codes.xlsx")
pd.DataFrame(["01", "02"]).to_excel(p, header=False, index=False)
got = ExcelDimensionReader({"Region": p}).read_dimension(region_def).items
check("Excel text cells 01/02, dtype=str", got, ["01", "02"])

# (e) whole system through from_csv: the flow carries the mangled labels
time_csv = write("time.csv", "2000\n2001\n2002\n")
iso_csv = write("iso2.csv", "DE\nNA\nFR\n")
definition = MFADefinition(
    dimensions=[DimensionDefinition(name="Time", letter="t", dtype=int), region_def],
    processes=["sysenv", "use"],
    flows=[FlowDefinition(from_process="sysenv", to_process="use", dim_letters=("t", "r"))],
    stocks=[],
    parameters=[],
)
mfa = MFASystem.from_csv(definition, {"Time": time_csv, "Region": iso_csv}, {})
check(
    "from_csv: Region items of flow 'sysenv => use'",
    mfa.flows["sysenv => use"].dims["r"].items,
    ["DE", "NA", "FR"],
)

if failures:
    print(f"\n{len(failures)} violation(s): items are not the file's items converted to str")
    sys.exit(1)
print("\nall fine")
sys.exit(0)
