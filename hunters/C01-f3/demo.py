"""C01 / finding 3: arithmetic fails for dimensions whose index letter is not in [A-Za-z].

Statement: "For arrays whose dimensions come from one common dimension set, x+y, x-y, minimum
and maximum return an array over the dimensions common to both operands ..., while x*y and x/y
return an array over the union of the dimensions ... A plain number behaves as an array of x's
own dimensions filled with that number".

Dimension accepts any single character as `letter` ("A single index letter"); DimensionSet,
FlodymArray construction, slicing and x**y all work with e.g. 'α', 'é' or '2'. But +, -, *, /,
minimum, maximum and every operation with a plain number paste the letters into an np.einsum
subscript string, which only understands ASCII letters, and raise UnicodeEncodeError /
ValueError instead of returning the promised array.
"""
import sys
import numpy as np
import flodym
from flodym import Dimension, DimensionSet, FlodymArray

print("flodym from", flodym.__file__)
bad = 0

for letter in ["α", "é", "2"]:
    try:
        alloy = Dimension(name="Alloy", letter=letter, items=["soft", "hard"])
    except ValueError as e:
        # rejecting such a letter up front would be an acceptable resolution as well
        print(f"letter {letter!r}: rejected by Dimension ({type(e).__name__}) - nothing to compute")
        continue
    dims = DimensionSet(
        dim_list=[alloy, Dimension(name="Time", letter="t", items=[2000, 2010, 2020])]
    )
    xv = np.arange(1.0, 7.0).reshape(2, 3)
    yv = np.array([10.0, 20.0, 30.0])
    x = FlodymArray(dims=dims, values=xv)
    y = FlodymArray(dims=dims[("t",)], values=yv)
    print(f"letter {letter!r}: arrays built, shape {x.shape}; x**y works: {np.array_equal((x**y).values, xv**yv)}; "
          f"slicing works: {x[{letter: 'hard'}].values.tolist()}")
    cases = [
        ("x + y", lambda: x + y, ("t",), xv.sum(axis=0) + yv),
        ("x - y", lambda: x - y, ("t",), xv.sum(axis=0) - yv),
        ("x * y", lambda: x * y, (letter, "t"), xv * yv),
        ("x / y", lambda: x / y, (letter, "t"), xv / yv),
        ("x.minimum(y)", lambda: x.minimum(y), ("t",), np.minimum(xv.sum(axis=0), yv)),
        ("x.maximum(x)", lambda: x.maximum(x), (letter, "t"), xv),
        ("x + 1", lambda: x + 1, (letter, "t"), xv + 1),
        ("2 - x", lambda: 2 - x, (letter, "t"), 2 - xv),
        ("x * 2", lambda: x * 2, (letter, "t"), xv * 2),
        ("2 / x", lambda: 2 / x, (letter, "t"), 2 / xv),
    ]
    for tag, f, exp_letters, exp in cases:
        try:
            r = f()
        except Exception as e:
            print(f"   {tag:14s} raised {type(e).__name__}: {str(e)[:90]}")
            print(f"   {'':14s} statement demands dims {exp_letters}, values {exp.tolist()}")
            bad += 1
            continue
        ok = tuple(r.dims.letters) == exp_letters and np.allclose(r.values, exp)
        print(f"   {tag:14s} -> {r.dims.letters} {np.asarray(r.values).tolist()} {'ok' if ok else 'WRONG'}")
        if not ok:
            bad += 1

print("violations:", bad)
sys.exit(1 if bad else 0)
