"""C19 / f3: an exported flow / stock whose set of distinct VALUES happens to equal the item set
of one of its (integer or untyped) dimensions cannot be read back: from_df takes the 'value'
column of the to_df / CSV table for that dimension and raises."""
import os
import sys
import tempfile

import numpy as np
import pandas as pd

import flodym as fd
from flodym.export import convert_to_dict, export_mfa_stocks_to_csv, export_mfa_flows_to_csv

print("flodym from", fd.__file__)

dims = fd.DimensionSet(
    dim_list=[
        fd.Dimension(name="Time", letter="t", items=[1, 2, 3, 4], dtype=int),
        fd.Dimension(name="Region", letter="r", items=["a", "b"], dtype=str),
    ]
)
procs = fd.make_processes(["sysenv", "use"])
flows = fd.make_empty_flows(
    procs,
    [
        fd.FlowDefinition(from_process="sysenv", to_process="use", dim_letters=("t", "r")),
        fd.FlowDefinition(from_process="use", to_process="sysenv", dim_letters=("t", "r")),
    ],
    dims,
)
stocks = fd.make_empty_stocks(
    [fd.StockDefinition(name="in use", process="use", dim_letters=("t", "r"), subclass=fd.SimpleFlowDrivenStock)],
    procs,
    dims,
)
mfa = fd.MFASystem(dims=dims, parameters={}, processes=procs, flows=flows, stocks=stocks)
# one unit flows in every time step, nothing leaves: the stock is 1, 2, 3, 4 in steps 1, 2, 3, 4
mfa.flows["sysenv => use"].values[...] = 1.0
mfa.stocks["in use"].inflow[...] = mfa.flows["sysenv => use"]
mfa.stocks["in use"].compute()
# an ordinary 2-d flow whose values are, as a set, {1, 2, 3, 4}
mfa.flows["use => sysenv"].values = np.array([[1.0, 2.0], [3.0, 4.0], [2.0, 1.0], [4.0, 3.0]])
print("stock values:\n", mfa.stocks["in use"].stock.values)

bad = False
d = convert_to_dict(mfa, type="pandas")
with tempfile.TemporaryDirectory() as td:
    export_mfa_stocks_to_csv(mfa, os.path.join(td, "s"))
    export_mfa_flows_to_csv(mfa, os.path.join(td, "f"))
    candidates = {
        "stock 'in use' (pandas form)": (mfa.stocks["in use"].stock, d["stocks"]["in use"]),
        "stock 'in use' (CSV)": (mfa.stocks["in use"].stock, pd.read_csv(os.path.join(td, "s", "in_use_stock.csv"))),
        "flow 'use => sysenv' (pandas form)": (mfa.flows["use => sysenv"], d["flows"]["use => sysenv"]),
        "flow 'use => sysenv' (CSV)": (mfa.flows["use => sysenv"], pd.read_csv(os.path.join(td, "f", "use__sysenv.csv"))),
        "flow 'sysenv => use' (pandas form, control)": (mfa.flows["sysenv => use"], d["flows"]["sysenv => use"]),
    }
for label, (arr, df) in candidates.items():
    try:
        back = fd.FlodymArray.from_df(dims=arr.dims, df=df)
        same = np.array_equal(back.values, arr.values)
        print(f"{label}: read back, identical = {same}")
        bad = bad or not same
    except Exception as e:
        print(f"{label}: from_df raised {type(e).__name__}: {str(e)[:160]}...")
        bad = True

print("statement demands: 'The pandas and CSV forms can be read back with from_df into identical arrays'")
sys.exit(1 if bad else 0)
