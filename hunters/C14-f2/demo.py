"""C14: symmetric difference '^' fails when the right operand is a Dimension,
although every other set operator (|, &, -, +) accepts a Dimension there."""
import sys
import flodym
from flodym import Dimension, DimensionSet

print("flodym from", flodym.__file__)
A = Dimension(name="Alpha", letter="a", items=[1, 2])
B = Dimension(name="Beta", letter="b", items=["x", "y", "z"])
C = Dimension(name="Gamma", letter="c", items=[1.0])
d = DimensionSet(dim_list=[A, B])

print("d | C ->", (d | C).letters)
print("d & A ->", (d & A).letters)
print("d - A ->", (d - A).letters)
print("d + C ->", (d + C).letters)

bad = False
for label, other, expected in [("d ^ C (new dim)", C, ("a", "b", "c")), ("d ^ A (contained dim)", A, ("b",))]:
    try:
        res = (d ^ other).letters
        print(label, "->", res, "expected", expected)
        if res != expected:
            bad = True
    except Exception as e:
        bad = True
        print(label, "-> raised", type(e).__name__ + ":", e, "| expected", expected)
    ref = (d ^ other.as_dimset()).letters
    print("   same with other.as_dimset():", ref)

print("Statement demands: symmetric difference is the combination (union) of the two differences;")
print("the operators take a DimensionSet or a Dimension (see type hints / prepare_other).")
sys.exit(1 if bad else 0)
