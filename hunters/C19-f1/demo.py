"""C19 / f1: a flow over a dimension with more than 32767 items cannot be read back
from its pandas / CSV export: from_df silently puts the values at wrong positions."""
import os
import sys
import tempfile

import numpy as np
import pandas as pd

import flodym as fd
from flodym.export import convert_to_dict, export_mfa_flows_to_csv

print("flodym from", fd.__file__)

N = 40000  # e.g. grid cells, products, facilities ...
dims = fd.DimensionSet(
    dim_list=[
        fd.Dimension(name="Time", letter="t", items=[2000, 2001], dtype=int),
        fd.Dimension(name="Cell", letter="c", items=list(range(N)), dtype=int),
    ]
)
procs = fd.make_processes(["sysenv", "use"])
flows = fd.make_empty_flows(
    procs,
    [fd.FlowDefinition(from_process="sysenv", to_process="use", dim_letters=("t", "c"))],
    dims,
)
flow = flows["sysenv => use"]
flow.values = np.arange(2 * N, dtype=float).reshape(2, N) + 0.5
mfa = fd.MFASystem(dims=dims, parameters={}, processes=procs, flows=flows, stocks={})

bad = False

# pandas form
df = convert_to_dict(mfa, type="pandas")["flows"]["sysenv => use"]
back = fd.FlodymArray.from_df(dims=flow.dims, df=df)
same = np.array_equal(back.values, flow.values)
print("pandas form read back identical:", same)
if not same:
    wrong = np.argwhere(back.values != flow.values)
    print(f"  {len(wrong)} of {flow.values.size} entries differ, e.g. at (t, c) index {tuple(wrong[0])}:",
          "exported", flow.values[tuple(wrong[0])], "read back", back.values[tuple(wrong[0])])
    bad = True

# CSV form
with tempfile.TemporaryDirectory() as td:
    export_mfa_flows_to_csv(mfa, td)
    df_csv = pd.read_csv(os.path.join(td, os.listdir(td)[0]))
back = fd.FlodymArray.from_df(dims=flow.dims, df=df_csv)
same = np.array_equal(back.values, flow.values)
print("CSV form read back identical:", same)
bad = bad or not same

print("statement demands: 'The pandas and CSV forms can be read back with from_df into identical arrays'")
sys.exit(1 if bad else 0)
