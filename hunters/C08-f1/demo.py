"""C08 f1: a time dimension with two items makes every lifetime model fail with an IndexError."""
import sys
import numpy as np
import scipy.stats
import flodym
from flodym import Dimension, DimensionSet
from flodym.lifetime_models import (
    FixedLifetime, NormalLifetime, FoldedNormalLifetime, LogNormalLifetime, WeibullLifetime,
)

print("flodym from", flodym.__file__)
time = Dimension(name="Time", letter="t", items=[2000, 2001], dtype=int)
region = Dimension(name="Region", letter="r", items=["a", "b"])
dims = DimensionSet(dim_list=[time, region])

models = {
    "FixedLifetime": (FixedLifetime, dict(mean=1.0), lambda age: (age < 1.0).astype(float)),
    "NormalLifetime": (NormalLifetime, dict(mean=3.0, std=1.0),
                       lambda age: scipy.stats.norm.sf(age, loc=3.0, scale=1.0)),
    "FoldedNormalLifetime": (FoldedNormalLifetime, dict(mean=3.0, std=1.0),
                             lambda age: scipy.stats.foldnorm.sf(age, 3.0, 0, 1.0)),
    "LogNormalLifetime": (LogNormalLifetime, dict(mean=3.0, std=1.0),
                          lambda age: scipy.stats.lognorm.sf(
                              age, s=np.sqrt(np.log(1 + 1 / 9)), scale=9 / np.sqrt(10))),
    "WeibullLifetime": (WeibullLifetime, dict(weibull_shape=2.0, weibull_scale=3.0),
                        lambda age: scipy.stats.weibull_min.sf(age, c=2.0, scale=3.0)),
}
# unit spacing, inflow in the middle of the year: ages at the end of year t are 0.5 and 1.5
expected_age = np.array([[0.5, np.nan], [1.5, 0.5]])

bad = False
for name, (cls, prms, sf_fun) in models.items():
    try:
        lt = cls(dims=dims, inflow_at="middle", **prms)
        sf = lt.sf
        pdf = lt.pdf
    except Exception as e:
        print(f"{name}: time items [2000, 2001] -> {type(e).__name__}: {e}")
        bad = True
        continue
    exp = np.where(np.isnan(expected_age), 0.0, sf_fun(np.nan_to_num(expected_age)))
    ok = np.allclose(sf[:, :, 0], exp) and np.allclose(sf[:, :, 1], exp)
    ok = ok and np.allclose(sf + np.cumsum(pdf, axis=0), np.tril(np.ones((2, 2)))[:, :, None])
    print(f"{name}: sf[:, :, 0] =\n{sf[:, :, 0]}\nexpected\n{exp}\n-> {'ok' if ok else 'WRONG'}")
    bad = bad or not ok

print("\nThe statement demands: 'For every lifetime model the survival table is zero for cohorts later "
      "than the year, lies in [0,1] ... Each entry equals the survival function of the named "
      "distribution' - a two-year model is a legitimate model and must yield a 2x2 table.")
if bad:
    print("BUG PRESENT: no survival table is produced for a two-item time dimension.")
    sys.exit(1)
print("fixed")
sys.exit(0)
