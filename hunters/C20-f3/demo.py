"""C20 / finding 3: Sankey plotter crashes when the slice touches the dimension a flow is split by.

Statement: "The Sankey plotter emits one link per shown flow (or one per item when a flow is split
by a dimension) whose value is that flow's total after applying the slice ..."

slice_dict and the per-flow split (flow_color_dict[name] = (dimension, colours)) are both accepted
by the constructor, but if slice_dict selects items of the very dimension a flow is split by
 (a) a sub-Dimension  (show only Cu and Al, one link each), or
 (b) a single item    (show only Cu, one link),
plot() raises KeyError("Dimension e not found in FlodymArray dims.") instead of emitting the
links of the remaining items with the sliced totals.
"""
import sys
import numpy as np
import flodym
from flodym import (
    MFASystem,
    Dimension,
    DimensionSet,
    FlowDefinition,
    make_processes,
    make_empty_flows,
)
from flodym.export.sankey import PlotlySankeyPlotter

print("flodym from", flodym.__file__)


class MyMFA(MFASystem):
    def compute(self):
        pass


time = Dimension(name="Time", letter="t", items=[2000, 2001, 2002])
elem = Dimension(name="Element", letter="e", items=["Fe", "Cu", "Al"])
dims = DimensionSet(dim_list=[time, elem])
processes = make_processes(["sysenv", "A", "B", "C"])
flow_defs = [
    FlowDefinition(from_process="sysenv", to_process="A", dim_letters=("t", "e")),
    FlowDefinition(from_process="A", to_process="B", dim_letters=("t", "e")),
    FlowDefinition(from_process="B", to_process="C", dim_letters=("t",)),
    FlowDefinition(from_process="C", to_process="sysenv", dim_letters=("t",)),
]
flows = make_empty_flows(processes, flow_defs, dims)
flows["A => B"].values[...] = np.arange(1.0, 10.0).reshape(3, 3)  # rows: time, columns: Fe Cu Al
flows["B => C"].values[...] = [10.0, 20.0, 30.0]
mfa = MyMFA(dims=dims, parameters={}, processes=processes, flows=flows, stocks={})

colors = ["red", "green", "blue"]
color_dict = {"default": "gray", "A => B": ("Element", colors)}


def links_of(fig):
    link, node = fig.data[0].link, fig.data[0].node
    return [
        (node.label[s], node.label[t], lab, float(v))
        for s, t, lab, v in zip(link.source, link.target, link.label, link.value)
    ]


failed = False

# reference: split without slicing works
fig = PlotlySankeyPlotter(mfa=mfa, flow_color_dict=dict(color_dict)).plot()
print("no slice         :", links_of(fig))

cases = {
    "(a) slice e to sub-dimension [Cu, Al]": (
        {"e": Dimension(name="Metals", letter="m", items=["Cu", "Al"])},
        {"Cu": 2.0 + 5.0 + 8.0, "Al": 3.0 + 6.0 + 9.0},
    ),
    "(b) slice e to the single item Cu": ({"e": "Cu"}, {"Cu": 2.0 + 5.0 + 8.0}),
}
for desc, (slice_dict, demanded) in cases.items():
    print("---", desc)
    print("  demanded links A -> B (label: value):", demanded, " and B -> C: 60.0")
    try:
        plotter = PlotlySankeyPlotter(
            mfa=mfa, slice_dict=slice_dict, flow_color_dict=dict(color_dict)
        )
        print("  constructor accepted the combination")
        fig = plotter.plot()
        links = links_of(fig)
        print("  observed links:", links)
        ab = {lab: v for s, t, lab, v in links if (s, t) == ("A", "B")}
        bc = [v for s, t, lab, v in links if (s, t) == ("B", "C")]
        if ab != demanded or bc != [60.0]:
            failed = True
    except Exception as ex:  # noqa
        print(f"  plot() raised {type(ex).__name__}: {ex}")
        failed = True

if failed:
    print("BUG PRESENT: no links emitted for a flow split by a sliced dimension")
    sys.exit(1)
print("OK")
sys.exit(0)
