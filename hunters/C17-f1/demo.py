"""C17 / finding 1: a set_prms() call that fails half-way leaves the lifetime model with a NEW mean
but the OLD cached survival/outflow tables -> the next compute() does not reflect the parameters held.

Run: cd /repo && PYTHONPATH=/repo /venv/bin/python /tmp/mut7/out/C17/f1/demo.py
"""
import sys
import numpy as np
import flodym
from flodym import Dimension, DimensionSet, FlodymArray, InflowDrivenDSM
from flodym.lifetime_models import NormalLifetime, WeibullLifetime

print("flodym from", flodym.__file__)

t = Dimension(name="time", letter="t", items=list(range(2000, 2012)))
r = Dimension(name="region", letter="r", items=["north", "south"])
dims = DimensionSet(dim_list=[t, r])
inflow = np.random.default_rng(1).uniform(5.0, 10.0, dims.shape)


def fresh_inflow_driven(lifetime_class, prms):
    s = InflowDrivenDSM(dims=dims, lifetime_model=lifetime_class(dims=dims, **prms))
    s.inflow.values[...] = inflow
    s.compute()
    return s


FOREIGN = FlodymArray(
    dims=DimensionSet(dim_list=[Dimension(name="product", letter="p", items=["car", "bus"])]),
    values=np.array([1.0, 2.0]),
)

bad = False
cases = [
    # (class, first parameters, arguments of the failing set_prms call)
    (NormalLifetime, dict(mean=4.0, std=1.0), dict(mean=9.0, std=np.ones(3))),  # wrong shape
    (NormalLifetime, dict(mean=4.0, std=1.0), dict(mean=9.0, std=FOREIGN)),  # parameter over a foreign dim
    (
        WeibullLifetime,
        dict(weibull_shape=2.0, weibull_scale=4.0),
        dict(weibull_shape=5.0, weibull_scale=np.ones(3)),
    ),
]
for lifetime_class, first, failing in cases:
    dsm = fresh_inflow_driven(lifetime_class, first)
    try:
        dsm.lifetime_model.set_prms(**failing)
        print("set_prms unexpectedly succeeded - demo not applicable")
        continue
    except Exception as e:
        print(f"\n{lifetime_class.__name__}.set_prms({list(failing)}) raised {type(e).__name__} (fine)")

    held = {k: np.array(v) for k, v in dsm.lifetime_model.prms.items()}
    print("  parameters held after the failed call:", {k: float(v.flat[0]) for k, v in held.items()})
    dsm.compute()  # recompute, as a scenario loop that catches the error would do
    ref = fresh_inflow_driven(lifetime_class, held)
    for what in ("stock", "outflow"):
        got = getattr(dsm, what).values
        want = getattr(ref, what).values
        diff = np.abs(got - want).max()
        print(f"  {what}: max |recomputed - fresh stock with the held parameters| = {diff:.6g}")
        if not np.allclose(got, want, rtol=1e-12, atol=1e-12):
            bad = True

print(
    "\nStatement: 'The result of compute() on a stock depends only on the driver arrays and lifetime"
    " parameters it holds at that moment, not on earlier computations' -> all differences must be 0"
    " (either the failed call changes nothing, or the tables follow the new mean)."
)
if bad:
    print("VIOLATED: results belong to the old parameters although the model now holds a new mean.")
    sys.exit(1)
print("ok")
sys.exit(0)
