"""C04 / finding 1: importing a wide DataFrame works or fails depending on the storage order of the
target array's dimensions, when two dimensions have the same item set (origin/destination regions,
time/age-cohort, ...)."""
import sys
import itertools
import logging
import numpy as np
import flodym
from flodym import Dimension, DimensionSet, FlodymArray

logging.disable(logging.CRITICAL)
print("flodym imported from", flodym.__file__)

regions = ["EUR", "USA", "CHN"]
origin = Dimension(name="Origin", letter="o", items=regions)
destination = Dimension(name="Destination", letter="d", items=regions)
time = Dimension(name="Time", letter="t", items=[2000, 2001], dtype=int)
base = FlodymArray(
    dims=DimensionSet(dim_list=[origin, destination, time]),
    values=np.arange(18.0).reshape(3, 3, 2) + 1.0,
)

outcomes = {}
for order in itertools.permutations("odt"):
    dims = base.dims.get_subset(order)
    arr = base.cast_to(dims)  # same entries under the same labels, other storage order
    for col in ("Origin", "Destination"):
        df = arr.to_df(dim_to_columns=col)  # all index levels carry the dimension names
        try:
            back = FlodymArray.from_df(dims=dims, df=df)
            ok = np.array_equal(back.values, arr.values)
            outcomes[(order, col)] = "ok" if ok else "WRONG VALUES"
        except Exception as e:  # noqa
            outcomes[(order, col)] = f"{type(e).__name__}: {str(e)[:110]}..."

for (order, col), res in outcomes.items():
    print(f"storage order {''.join(order)}, columns = {col:<11}: {res}")

failed = {k: v for k, v in outcomes.items() if v != "ok"}
print()
print("Statement demands: the import (and the export/import round trip) must not depend on the order")
print("in which the pre-declared target stores its dimensions -> every line above must read 'ok'.")
if failed:
    print(f"OBSERVED: {len(failed)} of {len(outcomes)} combinations fail, and whether a given data frame")
    print("can be imported depends only on whether 'Origin' or 'Destination' is stored first. BUG PRESENT")
    sys.exit(1)
print("All combinations import correctly. OK")
sys.exit(0)
