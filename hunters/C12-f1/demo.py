"""C12 / f1: from_df misplaces values when a dimension has more than 32767 items.

Run:  cd /repo && PYTHONPATH=/repo /venv/bin/python /tmp/mut7/out/C12/f1/demo.py
"""
import sys
import logging
import numpy as np
import pandas as pd
import flodym
from flodym import Dimension, DimensionSet, FlodymArray

logging.disable(logging.CRITICAL)
print("flodym from:", flodym.__file__)

n = 40000  # a long but perfectly legitimate dimension (e.g. products, grid cells, plants)
items = [f"p{i}" for i in range(n)]
dims = DimensionSet(dim_list=[Dimension(name="Product", letter="p", items=items)])
expected = np.arange(n, dtype=float) + 1.0  # value of item p<i> is i+1

bad = False

# 1) default settings, complete and consistent long-format data
df = pd.DataFrame({"Product": items, "value": expected})
arr = FlodymArray.from_df(dims=dims, df=df)
wrong = np.flatnonzero(arr.values != expected)
print(f"[default] entries under a wrong label: {len(wrong)} of {n}")
for i in wrong[:3]:
    print(f"   item {items[i]!r}: data frame says {expected[i]}, array holds {arr.values[i]}")
for i in wrong[-2:]:
    print(f"   item {items[i]!r}: data frame says {expected[i]}, array holds {arr.values[i]}")
if len(wrong):
    bad = True

# 2) allow_missing_values: only the last 5000 items are present
present = np.arange(n - 5000, n)
df2 = pd.DataFrame({"Product": [items[i] for i in present], "value": expected[present]})
arr2 = FlodymArray.from_df(dims=dims, df=df2, allow_missing_values=True)
exp2 = np.zeros(n)
exp2[present] = expected[present]
wrong2 = np.flatnonzero(arr2.values != exp2)
print(f"[allow_missing_values] entries differing from 'present entry under its label, rest zero': {len(wrong2)}")
for i in wrong2[:2]:
    print(f"   item {items[i]!r}: expected {exp2[i]}, array holds {arr2.values[i]}")
if len(wrong2):
    bad = True

print()
print("Statement demands: every present entry is placed under its labels (missing ones become zero).")
if bad:
    print("OBSERVED: entries of items with position >= 32768 were written to other items "
          "(index wrapped around by the int16 cast) -> BUG PRESENT")
    sys.exit(1)
print("OK: all entries under their labels")
sys.exit(0)
