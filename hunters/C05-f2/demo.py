"""C05 / finding 2: whole-array assignment through an empty key ({} or ()) broadcasts an ndarray.

Statement: "For whole-array assignment an ndarray must have exactly the target's shape (it is
never broadcast or transposed)".
`target[{}]` / `target[()]` are the dict / tuple key forms that fix no dimension at all, i.e. they
address the whole array (target[{}] on the right-hand side returns the full array).  They occur
naturally when the key is built programmatically, e.g. {letter: item for letter in fixed_dims}.
"""
import sys
import numpy as np
import flodym
from flodym import Dimension, DimensionSet, FlodymArray

print("flodym from", flodym.__file__)

t = Dimension(name="Time", letter="t", items=[2000, 2010, 2020])
r = Dimension(name="Region", letter="r", items=["a", "b", "c"])
dims = DimensionSet(dim_list=[t, r])

wrong_shapes = {
    "shape (3,)  (one value per region, broadcast over time)": np.array([1.0, 2.0, 3.0]),
    "shape (3,1) (one value per year, broadcast over region)": np.array([[1.0], [2.0], [3.0]]),
    "shape (1,1)": np.array([[7.0]]),
}

bad = []
for key, key_txt in ((Ellipsis, "..."), ({}, "{}"), ((), "()")):
    # the key really addresses the whole array:
    probe = FlodymArray(dims=dims, values=np.arange(9.0).reshape(3, 3))
    assert probe[key].dims.letters == ("t", "r") and probe[key].values.shape == (3, 3)
    for txt, arr in wrong_shapes.items():
        target = FlodymArray(dims=dims, values=np.arange(9.0).reshape(3, 3))
        before = target.values.copy()
        try:
            target[key] = arr
        except Exception as e:
            unchanged = np.array_equal(target.values, before)
            print(f"target[{key_txt}] = ndarray {txt}: rejected ({type(e).__name__}), "
                  f"target unchanged: {unchanged}")
            if not unchanged:
                bad.append(f"target[{key_txt}]: rejected but target modified")
        else:
            print(f"target[{key_txt}] = ndarray {txt}: ACCEPTED, target is now "
                  f"{target.values.tolist()}")
            bad.append(f"target[{key_txt}] broadcast an ndarray of {txt.split('(')[0]}{arr.shape}")

print("\nstatement demands: every one of these whole-array assignments is rejected, "
      "because the ndarray does not have exactly the target's shape (3, 3)")
if bad:
    print("VIOLATION:")
    for b in bad:
        print("  -", b)
    sys.exit(1)
print("OK")
sys.exit(0)
