"""C09 / finding 3: a dynamic stock model over a time dimension with two items cannot be computed.

A two-point time axis (e.g. base year and target year) is a legitimate, if coarse, spacing.  The DSM
is constructed without complaint, but compute() dies with an opaque
    IndexError: index 1 is out of bounds for axis 0 with size 1
from UnevenTimeDim.compute_t_bounds, which needs two mid-points (three items) to extrapolate the
outer interval bounds.  (A single time item fails alike with 'index 0 is out of bounds'.)
"""
import sys
import traceback
import numpy as np
import flodym
from flodym import Dimension, DimensionSet, StockArray, InflowDrivenDSM, StockDrivenDSM, FixedLifetime, WeibullLifetime

print("flodym from", flodym.__file__)

dims = DimensionSet(
    dim_list=[
        Dimension(name="Time", letter="t", items=[2020, 2050], dtype=int),
        Dimension(name="Region", letter="r", items=["A", "B"], dtype=str),
    ]
)
bad = False


def check(tag, dsm):
    global bad
    try:
        dsm.compute()
    except Exception as e:  # noqa
        print(f"{tag}: compute() raised {type(e).__name__}: {e}")
        print("   ", traceback.format_exc().strip().splitlines()[-3].strip())
        bad = True
        return
    sbc, obc = dsm.get_stock_by_cohort(), dsm.get_outflow_by_cohort()
    ok = (
        np.allclose(sbc.sum(axis=1), dsm.stock.values)
        and np.allclose(obc.sum(axis=1), dsm.outflow.values)
        and np.all(sbc[0, 1] == 0)
        and np.all(obc[0, 1] == 0)
        and np.all(sbc[1, 0] <= sbc[0, 0] + 1e-12)
    )
    print(f"{tag}: computed; totals = cohort sums, upper triangle zero, cohort 2020 not growing: {ok}")
    print("    stock\n", dsm.stock.values, "\n    stock_by_cohort[t=2050]\n", sbc[1])
    if not ok:
        bad = True


inflow = StockArray(dims=dims, values=np.array([[1.0, 2.0], [3.0, 4.0]]))
check(
    "inflow-driven, items [2020, 2050]",
    InflowDrivenDSM(dims=dims, inflow=inflow, lifetime_model=WeibullLifetime(dims=dims, weibull_shape=2.0, weibull_scale=40.0)),
)
stock = StockArray(dims=dims, values=np.array([[30.0, 60.0], [80.0, 100.0]]))
for solver in ("manual", "lapack"):
    check(
        f"stock-driven ({solver}), items [2020, 2050]",
        StockDrivenDSM(dims=dims, stock=stock, solver=solver, lifetime_model=FixedLifetime(dims=dims, mean=100.0)),
    )

print()
print("Statement demands: 'For every dynamic stock model after compute(), the stock equals the sum over")
print("cohorts ... This holds for the inflow-driven and the stock-driven model alike and for any spacing of")
print("the time items.'  -> compute() must deliver stock, outflow and the two cohort tables.")
if bad:
    print("VIOLATED: compute() raises IndexError for a two-item time dimension.")
    sys.exit(1)
print("ok")
sys.exit(0)
