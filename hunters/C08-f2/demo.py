"""C08 f2: a failed set_prms leaves a half-updated model whose cached tables do not match its parameters."""
import sys
import numpy as np
import scipy.stats
import flodym
from flodym import Dimension, DimensionSet, FlodymArray
from flodym.lifetime_models import NormalLifetime

print("flodym from", flodym.__file__)
time = Dimension(name="Time", letter="t", items=[2000, 2001, 2002, 2003], dtype=int)
region = Dimension(name="Region", letter="r", items=["a", "b"])
product = Dimension(name="Product", letter="p", items=["x", "y", "z"])
dims = DimensionSet(dim_list=[time, region])

lt = NormalLifetime(dims=dims, mean=3.0, std=1.0)
sf_before = lt.sf.copy()
pdf_before = lt.pdf.copy()

# second parameter is over a dimension the model does not have -> the call is rejected
bad_std = FlodymArray(dims=DimensionSet(dim_list=[product]), values=np.ones(3))
try:
    lt.set_prms(mean=10.0, std=bad_std)
    print("set_prms unexpectedly succeeded")
except Exception as e:
    print("set_prms(mean=10, std=<array over foreign dimension>) raised", type(e).__name__)

mean_now = float(np.asarray(lt.mean).flat[0])
std_now = float(np.asarray(lt.std).flat[0])
print("model now declares mean =", mean_now, ", std =", std_now)
ages = np.array([0.5, 1.5, 2.5, 3.5])
declared = scipy.stats.norm.sf(ages, loc=mean_now, scale=std_now)
print("survival of cohort 2000 from the table      :", lt.sf[:, 0, 0])
print("survival function of the declared N(%g, %g) :" % (mean_now, std_now), declared)

table_matches_declared = np.allclose(lt.sf[:, 0, 0], declared)
unchanged = mean_now == 3.0 and std_now == 1.0 and np.array_equal(lt.sf, sf_before) \
    and np.array_equal(lt.pdf, pdf_before)
print("\nThe statement demands: 'Each entry equals the survival function of the named distribution "
      "(... normal ...)' with the model's parameters; a rejected call must either leave the model "
      "untouched (mean 3) or leave tables that belong to the parameters it now holds.")
if not table_matches_declared:
    print("BUG PRESENT: the failed call changed mean to 10 but kept the cached tables of mean 3 "
          "(unchanged-as-a-whole: %s)." % unchanged)
    sys.exit(1)
print("fixed")
sys.exit(0)
