"""C02 finding 2: MFASystem.stocks is declared Optional[Dict[str, Stock]]; a system built with
stocks=None (i.e. 'without stocks') makes check_mass_balance and check_flows crash with
AttributeError instead of reporting the (consistent) balance."""
import sys
import numpy as np
import flodym
from flodym import Dimension, DimensionSet, Flow, MFASystem, make_processes

print("flodym from:", flodym.__file__)

t = Dimension(name="Time", letter="t", items=[2000, 2001, 2002])
dims = DimensionSet(dim_list=[t])
procs = make_processes(["sysenv", "use"])


def build(out_value, **kw):
    flows = {
        "in": Flow(from_process=procs["sysenv"], to_process=procs["use"], dims=dims, name="in",
                   values=np.full(3, 5.0)),
        "out": Flow(from_process=procs["use"], to_process=procs["sysenv"], dims=dims, name="out",
                    values=np.full(3, out_value)),
    }
    return MFASystem(dims=dims, parameters={}, processes=procs, flows=flows, **kw)


bad = False

print("field annotation:", MFASystem.model_fields["stocks"].annotation)
mfa = build(5.0, stocks=None)  # accepted by the model: None is a declared value of the field
print("MFASystem(stocks=None) constructed, stocks =", mfa.stocks)

for label, fn in [
    ("check_mass_balance()", lambda: build(5.0, stocks=None).check_mass_balance()),
    ("check_mass_balance(tolerance=1e-9)", lambda: build(5.0, stocks=None).check_mass_balance(tolerance=1e-9)),
    ("check_flows(raise_error=True)", lambda: build(5.0, stocks=None).check_flows(raise_error=True)),
]:
    try:
        fn()
        print(f"  balanced, stocks=None: {label} succeeded (as demanded)")
    except Exception as ex:  # noqa
        bad = True
        print(f"  balanced, stocks=None: {label} RAISED {type(ex).__name__}: {ex}  <-- must succeed")

# the violation of an unbalanced system must be reported as such, too
try:
    build(4.0, stocks=None).check_mass_balance()
    bad = True
    print("  unbalanced, stocks=None: accepted  <-- must raise the mass balance error")
except ValueError as ex:
    print("  unbalanced, stocks=None: ValueError:", ex)
except Exception as ex:  # noqa
    bad = True
    print(f"  unbalanced, stocks=None: RAISED {type(ex).__name__}: {ex}  <-- must be the mass balance ValueError")

# reference: omitted stocks work
build(5.0).check_mass_balance()
print("  reference: stocks omitted (default {}) -> check_mass_balance succeeded")

print()
print("Statement: 'This holds for every system graph: ... with or without stocks ...'")
if bad:
    print("BUG PRESENT: a system without stocks (stocks=None) cannot be checked.")
    sys.exit(1)
print("OK")
sys.exit(0)
