"""C15 / finding 1: sum_to / sum_over return a numpy VIEW of the source when nothing is summed away.

If the requested result dimensions are all dimensions of the array (in the same or in a permuted
order), np.einsum("tr->tr") / ("tr->rt") returns a view, and sum_to()/sum_over() wrap that view in the
new FlodymArray.  Writing into the "result" (result[...] = ..., result[{'t': 2000}] = 0,
result.values[...] *= 2) then silently changes the source array, and vice versa.  As soon as at least
one dimension is summed away (or the dtype is a narrow integer) the result is independent, so generic
code of the form `flow.sum_to(parameter.dims.letters)` behaves differently depending on whether the
two happen to have the same dimensions.
"""
import sys
import numpy as np
import flodym
from flodym import Dimension, DimensionSet, FlodymArray

print("flodym from", flodym.__file__)

t = Dimension(name="Time", letter="t", items=[2000, 2010, 2020], dtype=int)
r = Dimension(name="Region", letter="r", items=["EU", "US"], dtype=str)
dims = DimensionSet(dim_list=[t, r])


def make():
    return FlodymArray(dims=dims, values=np.arange(1.0, 7.0).reshape(3, 2), name="flow")


cases = {
    "sum_to(('t','r'))  [all dims, same order]": lambda a: a.sum_to(("t", "r")),
    "sum_to(('r','t'))  [all dims, permuted]": lambda a: a.sum_to(("r", "t")),
    "sum_over(())       [nothing summed]": lambda a: a.sum_over(()),
    "sum_to(('t',))     [real reduction]": lambda a: a.sum_to(("t",)),
}

violations = []
for label, op in cases.items():
    a = make()
    before = a.values.copy()
    res = op(a)
    # explicitly in-place operations on the RESULT only (public API)
    res[{"t": 2000}] = FlodymArray.full(res.dims.drop("t"), 0.0)
    res[...] = res * 10
    source_ok = np.array_equal(a.values, before)
    # vice versa: write into the source, result must not follow
    a2 = make()
    res2 = op(a2)
    snapshot = res2.values.copy()
    a2[...] = a2 * 0
    result_ok = np.array_equal(res2.values, snapshot)
    print(f"{label:45s} source untouched: {source_ok!s:5s} | result untouched: {result_ok!s:5s}"
          f" | shares memory: {np.shares_memory(op(a).values, a.values)}")
    if not (source_ok and result_ok):
        violations.append(label.split("[")[0].strip())

a = make()
total = a.sum_to(("t", "r"))
total[{"t": 2000}] = FlodymArray.full(dims[("r",)], 0.0)
print("\nflow = [[1,2],[3,4],[5,6]]; total = flow.sum_to(('t','r')); total[{'t': 2000}] = 0")
print("  flow.values now:\n", a.values)
print("  statement demands flow.values unchanged: operations never modify their inputs and results"
      " are independent objects")

if violations:
    print("\nBUG: result of", "; ".join(violations), "is a view of the source's values")
    sys.exit(1)
print("\nOK: results of sum_to / sum_over are independent of the source")
sys.exit(0)
