"""C20 / finding 1: PlotlyArrayPlotter cannot draw more than 24 lines.

Statement: "The array plotters (plotly and pyplot) draw, for every subplot item and line item,
a line whose y-data are exactly the array's entries for those labels ..."

With a linecolor dimension of 25 items (or when a figure is re-used via `fig=` so that the 25th
line is reached), PlotlyArrayPlotter.plot() raises IndexError, because add_line() indexes the
24-entry default colour map (plotly Dark24) with the running line number.
PyplotArrayPlotter draws the same array without problems.
"""
import sys
import numpy as np
import matplotlib

matplotlib.use("Agg")
import flodym
from flodym import Dimension, DimensionSet, FlodymArray
from flodym.export.array_plotter import PlotlyArrayPlotter, PyplotArrayPlotter

print("flodym from", flodym.__file__)

failed = False

# --- case A: one array with 25 line items -------------------------------------------------
time = Dimension(name="Time", letter="t", items=[2000, 2001, 2002])
region = Dimension(name="Region", letter="r", items=[f"R{i:02d}" for i in range(25)])
dims = DimensionSet(dim_list=[time, region])
values = np.arange(3 * 25, dtype=float).reshape(3, 25)
arr = FlodymArray(dims=dims, values=values, name="arr")

fig = PyplotArrayPlotter(array=arr, intra_line_dim="Time", linecolor_dim="Region").plot()
print("pyplot : number of lines drawn =", len(fig.axes[0].lines), "(25 demanded)")

try:
    fig = PlotlyArrayPlotter(array=arr, intra_line_dim="Time", linecolor_dim="Region").plot()
    n = len(fig.data)
    print("plotly : number of lines drawn =", n, "(25 demanded)")
    ok = n == 25 and all(
        list(tr.y) == list(values[:, i]) and tr.name == region.items[i]
        for i, tr in enumerate(fig.data)
    )
    if not ok:
        failed = True
except Exception as ex:  # noqa
    print(f"plotly : plot() raised {type(ex).__name__}: {ex}   (25 lines demanded)")
    failed = True

# --- case B: history - five arrays of 5 lines each drawn onto the same figure ---------------
small_region = Dimension(name="Region", letter="r", items=["a", "b", "c", "d", "e"])
sdims = DimensionSet(dim_list=[time, small_region])
fig = None
try:
    for k in range(5):
        a = FlodymArray(dims=sdims, values=np.full((3, 5), float(k)), name=f"arr{k}")
        fig = PlotlyArrayPlotter(
            array=a, intra_line_dim="t", linecolor_dim="r", fig=fig
        ).plot()
    print("plotly, 5 x 5 lines on one figure: lines drawn =", len(fig.data), "(25 demanded)")
    if len(fig.data) != 25:
        failed = True
except Exception as ex:  # noqa
    print(
        f"plotly, 5 x 5 lines on one figure: plot() no. {k + 1} raised {type(ex).__name__}: {ex}"
        "   (25 lines demanded)"
    )
    failed = True

if failed:
    print("BUG PRESENT: the statement demands one line per line item, plotly plotter raises instead")
    sys.exit(1)
print("OK")
sys.exit(0)
