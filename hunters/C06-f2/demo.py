"""C06 / single-item indexing fails for bytes labels: the item is found in its
dimension, but is then iterated byte by byte as if it were a list of items."""
import sys
import numpy as np
import flodym
from flodym import Dimension, DimensionSet, FlodymArray

print("flodym from", flodym.__file__)

codes = Dimension(name="Code", letter="c", items=[b"ab", b"cd", b"ef"])  # e.g. labels read from HDF5 / numpy 'S' arrays
region = Dimension(name="Region", letter="r", items=["EUR", "USA"])
arr = FlodymArray(
    dims=DimensionSet(dim_list=[codes, region]), values=np.arange(6.0).reshape(3, 2)
)
expected = arr.values[1].copy()

bad = False
for label, key in [("arr[b'cd']", b"cd"), ("arr[{'c': b'cd'}]", {"c": b"cd"}), ("arr[b'cd', 'USA']", (b"cd", "USA"))]:
    try:
        res = arr[key]
        print(label, "->", res.values, "dims", res.dims.letters)
    except Exception as e:  # noqa
        print("VIOLATION:", label, "raised", type(e).__name__, ":", e)
        bad = True

try:
    parts = arr.split("c")
    print("split keys:", list(parts))
except Exception as e:  # noqa
    print("VIOLATION: split('c') raised", type(e).__name__, ":", e)
    bad = True

# writing a single bytes-labelled item silently keeps the dimension semantics wrong as well
w = arr.copy()
try:
    w[{"c": b"cd"}] = np.array([-1.0, -2.0])
    print("write ok:", w.values.tolist())
except Exception as e:  # noqa
    print("VIOLATION: write arr[{'c': b'cd'}] = ... raised", type(e).__name__, ":", e)
    bad = True

print("Statement demands: indexing by 'a single item ... reads or writes exactly the entries carrying "
      "those labels'; expected arr[b'cd'].values ==", expected.tolist(), "with dims ('r',)")
sys.exit(1 if bad else 0)
