"""C08 f3: with n_pts_per_interval=9 the survival table exceeds 1 and outflow probabilities are negative."""
import sys
import numpy as np
import flodym
from flodym import Dimension, DimensionSet
from flodym.lifetime_models import FixedLifetime, NormalLifetime, LogNormalLifetime

print("flodym from", flodym.__file__)
time = Dimension(name="Time", letter="t", items=[2000, 2001, 2002, 2003], dtype=int)
region = Dimension(name="Region", letter="r", items=["a", "b"])
dims = DimensionSet(dim_list=[time, region])

bad = False
for cls, prms in (
    (FixedLifetime, dict(mean=100.0)),
    (NormalLifetime, dict(mean=50.0, std=2.0)),
    (LogNormalLifetime, dict(mean=50.0, std=2.0)),
):
    lt = cls(dims=dims, n_pts_per_interval=9, **prms)
    sf, pdf = lt.sf, lt.pdf
    print(f"{cls.__name__}{prms}, n_pts_per_interval=9: max(sf) - 1 = {sf.max() - 1:.3e}, "
          f"min(pdf) = {pdf.min():.3e}")
    if sf.max() > 1.0 or sf.min() < 0.0 or pdf.min() < 0.0:
        bad = True

print("\nThe statement demands: the survival table 'lies in [0,1]' and 'survival(t,c) + sum of outflow "
      "probabilities up to t = 1 with all outflow probabilities non-negative'. All items survive here "
      "(lifetime >> horizon), so every entry on and below the diagonal must be exactly 1 and every "
      "outflow probability exactly 0.")
if bad:
    print("BUG PRESENT: the 9-point quadrature weights add up to 1 + 2.2e-16, so sf > 1 and pdf < 0 "
          "(a DSM then yields negative outflows).")
    sys.exit(1)
print("fixed")
sys.exit(0)
