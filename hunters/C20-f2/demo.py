"""C20 / finding 2: PlotlyArrayPlotter fails for line items that are numpy scalars or dates.

Statement: "The array plotters (plotly and pyplot) draw, for every subplot item and line item,
a line whose y-data are exactly the array's entries for those labels along the chosen dimension ..."

Dimension items may be of any type (Dimension.items is a plain list, dtype is free). If the items
of the linecolor dimension are numpy integers (e.g. items=list(np.arange(2000, 2003))), numpy
float32, datetime.date or pandas Timestamps, PlotlyArrayPlotter.plot() raises ValueError, because
the raw item is handed to plotly as the trace name. The very same array works
 - with PyplotArrayPlotter,
 - with PlotlyArrayPlotter when the dimension is used as subplot_dim or intra_line_dim.
"""
import sys
import datetime
import numpy as np
import matplotlib

matplotlib.use("Agg")
import flodym
from flodym import Dimension, DimensionSet, FlodymArray
from flodym.export.array_plotter import PlotlyArrayPlotter, PyplotArrayPlotter

print("flodym from", flodym.__file__)

region = Dimension(name="Region", letter="r", items=["EU", "US", "CN", "IN"])
candidates = {
    "numpy ints  list(np.arange(2000, 2003))": list(np.arange(2000, 2003)),
    "numpy float32": list(np.arange(3, dtype=np.float32)),
    "datetime.date": [datetime.date(2020, 1, d) for d in (1, 2, 3)],
}

failed = False
for desc, items in candidates.items():
    cohort = Dimension(name="Cohort", letter="c", items=items)
    dims = DimensionSet(dim_list=[region, cohort])
    values = np.arange(12, dtype=float).reshape(4, 3)
    arr = FlodymArray(dims=dims, values=values, name="arr")
    print(f"--- line items: {desc}")

    fig = PyplotArrayPlotter(array=arr, intra_line_dim="Region", linecolor_dim="Cohort").plot()
    lines = fig.axes[0].lines
    print(
        "  pyplot:",
        [(ln.get_label(), list(ln.get_ydata())) for ln in lines],
    )

    # the same dimension as subplot dimension works in plotly
    fig = PlotlyArrayPlotter(array=arr, intra_line_dim="r", subplot_dim="c").plot()
    print("  plotly, as subplot_dim: ", len(fig.data), "lines,", [a.text for a in fig.layout.annotations])

    try:
        fig = PlotlyArrayPlotter(array=arr, intra_line_dim="Region", linecolor_dim="Cohort").plot()
        got = [(tr.name, list(tr.y)) for tr in fig.data]
        print("  plotly, as linecolor_dim:", got)
        ok = len(fig.data) == 3 and all(
            str(tr.name) == str(item) and list(tr.y) == list(values[:, i]) and list(tr.x) == region.items
            for i, (tr, item) in enumerate(zip(fig.data, items))
        )
        if not ok:
            print("  -> wrong lines")
            failed = True
    except Exception as ex:  # noqa
        msg = " ".join(str(ex).split())[:160]
        print(f"  plotly, as linecolor_dim: plot() raised {type(ex).__name__}: {msg}")
        print("  demanded: 3 lines labelled by the items, y-data = the array's columns")
        failed = True

if failed:
    print("BUG PRESENT: no line is drawn for legitimate line items; plot() raises instead")
    sys.exit(1)
print("OK")
sys.exit(0)
