"""C05 / finding 3: a FlodymArray right-hand side is rejected when a dimension letter is a
letter outside ASCII a-z/A-Z, although numbers and ndarrays can be assigned to the same array.

Statement: "A FlodymArray right-hand side is matched by label and summed over the dimensions the
addressed region does not have, and is rejected with an error when it lacks a dimension the region
has" - here the rhs has every dimension of the region, so the statement promises the summed result.
The docs only demand "index letters must have length one, i.e. only be one letter"; Dimension()
accepts these letters without complaint.
"""
import sys
import numpy as np
import flodym
from flodym import Dimension, DimensionSet, FlodymArray

print("flodym from", flodym.__file__)

bad = []
for letter, name in (("τ", "Time"), ("é", "Élément"), ("r", "Reference (ASCII control)")):
    d = Dimension(name=name, letter=letter, items=[2000, 2010])
    g = Dimension(name="Good", letter="g", items=["x", "y", "z"])
    p = Dimension(name="Product", letter="p", items=["u", "v"])
    target = FlodymArray(dims=DimensionSet(dim_list=[d, g]))
    rhs = FlodymArray(
        dims=DimensionSet(dim_list=[p, g, d]), values=np.arange(12.0).reshape(2, 3, 2)
    )
    expected = rhs.values.sum(axis=0).T  # summed over p, ordered (d, g)

    # numbers and ndarrays work on this array:
    target[...] = 1.0
    target[...] = np.ones((2, 3))
    target["x"] = 2.0

    for key, key_txt, exp in (
        (Ellipsis, "...", expected),
        ({"g": "y"}, "{'g': 'y'}", None),
    ):
        try:
            target[key] = rhs
        except Exception as e:
            print(f"letter {letter!r}: target[{key_txt}] = rhs -> {type(e).__name__}: {str(e)[:90]}")
            bad.append(f"letter {letter!r}, key {key_txt}: {type(e).__name__}")
        else:
            ok = exp is None or np.array_equal(target.values, exp)
            print(f"letter {letter!r}: target[{key_txt}] = rhs -> ok, values correct: {ok}")
            if not ok:
                bad.append(f"letter {letter!r}, key {key_txt}: wrong values")

print("\nstatement demands: the rhs has all dimensions of the addressed region, so it is summed "
      "over 'p' and stored")
if bad:
    print("VIOLATION:", "; ".join(bad))
    sys.exit(1)
print("OK")
sys.exit(0)
