"""C09 / finding 2: a NaN / inf entry of a LATER cohort leaks into all EARLIER years.

The cohort tables are built as  inflow[c] * sf[t, c]  (and  * pdf[t, c]) for ALL pairs (t, c) and rely
on the survival / outflow tables being 0 for c > t to blank the upper triangle.  0 * nan and 0 * inf
are nan, so a missing (NaN) or infinite inflow in year 2003 turns the cohort tables of the years
2000..2002 into NaN in column 2003, and with them stock and outflow of 2000..2002.
"""
import sys
import warnings
import numpy as np
import flodym
from flodym import Dimension, DimensionSet, StockArray, InflowDrivenDSM, StockDrivenDSM, NormalLifetime

warnings.simplefilter("ignore")
print("flodym from", flodym.__file__)

dims = DimensionSet(
    dim_list=[
        Dimension(name="Time", letter="t", items=[2000, 2001, 2002, 2003, 2004], dtype=int),
        Dimension(name="Region", letter="r", items=["A", "B"], dtype=str),
    ]
)
n = dims.shape[0]
upper = np.triu(np.ones((n, n), dtype=bool), k=1)  # [t, c] with c > t
bad = False


def report(tag, dsm, ref, first_bad):
    """ref: same model without the special value; years < first_bad must agree with it."""
    global bad
    sbc, obc = dsm.get_stock_by_cohort(), dsm.get_outflow_by_cohort()
    up_s, up_o = sbc[upper], obc[upper]
    zero_upper = bool(np.all(up_s == 0) and np.all(up_o == 0))
    early_ok = bool(
        np.allclose(dsm.stock.values[:first_bad], ref.stock.values[:first_bad], equal_nan=False)
        and np.allclose(dsm.outflow.values[:first_bad], ref.outflow.values[:first_bad], equal_nan=False)
    )
    print(f"{tag}")
    print("   stock   region A:", dsm.stock.values[:, 0])
    print("   outflow region A:", dsm.outflow.values[:, 0])
    print("   stock_by_cohort[t=2000, c=2003] =", sbc[0, 3], " outflow_by_cohort[t=2000, c=2003] =", obc[0, 3])
    print("   tables zero for cohorts later than the year:", zero_upper)
    print(f"   years before {dims['t'].items[first_bad]} unaffected (equal to run without the special value):", early_ok)
    if not (zero_upper and early_ok):
        bad = True


def lm():
    return NormalLifetime(dims=dims, mean=3, std=1)


base = np.full(dims.shape, 10.0)
ref = InflowDrivenDSM(dims=dims, inflow=StockArray(dims=dims, values=base.copy()), lifetime_model=lm())
ref.compute()

for special in (np.nan, np.inf):
    v = base.copy()
    v[3, 0] = special  # inflow of cohort 2003, region A
    d = InflowDrivenDSM(dims=dims, inflow=StockArray(dims=dims, values=v), lifetime_model=lm())
    d.compute()
    report(f"inflow-driven, inflow[2003, A] = {special}", d, ref, 3)

# stock-driven: stock of 2003 unknown (NaN) -> inflow 2003.. cannot be known, but 2000..2002 can
sref = StockDrivenDSM(dims=dims, stock=StockArray(dims=dims, values=ref.stock.values.copy()), lifetime_model=lm())
sref.compute()
s = ref.stock.values.copy()
s[3, 0] = np.nan
d = StockDrivenDSM(dims=dims, stock=StockArray(dims=dims, values=s), lifetime_model=lm())
d.compute()
report("stock-driven (manual solver), stock[2003, A] = nan", d, sref, 3)

print()
print("Statement demands: 'both tables being zero for cohorts later than the year' (and hence totals of a")
print("year that do not depend on cohorts that do not exist yet).")
if bad:
    print("VIOLATED: NaN entries above the diagonal of the cohort tables; stock/outflow of earlier years are NaN.")
    sys.exit(1)
print("ok")
sys.exit(0)
