"""C18 / finding 3: definitions whose (generated / default / overriding) names collide are
silently merged - the system ends up with fewer flows, stocks or parameters than were defined.

Clause: "Building a system from definitions yields ... one zero-valued flow per flow definition
running from the named source to the named target process under the generated or overriding name,
one stock per stock definition of the requested class, lifetime model, solver, time letter and
process, and parameters under their names, each over exactly the listed dimensions in the listed
order".
"""
import sys

import numpy as np
import flodym
from flodym import (
    MFASystem,
    MFADefinition,
    DimensionDefinition,
    Dimension,
    FlowDefinition,
    StockDefinition,
    Parameter,
    DataReader,
    SimpleFlowDrivenStock,
    InflowDrivenDSM,
    NormalLifetime,
)

print("flodym from", flodym.__file__)


class Reader(DataReader):
    items = {"t": [2000, 2001, 2002], "r": ["EU", "US"], "m": ["steel", "wood", "glass"]}

    def read_dimension(self, d):
        return Dimension(name=d.name, letter=d.letter, items=self.items[d.letter], dtype=d.dtype)

    def read_parameter_values(self, parameter_name, dims):
        return Parameter(dims=dims, name=parameter_name, values=np.ones(dims.shape))


dimensions = [
    DimensionDefinition(name="Time", letter="t", dtype=int),
    DimensionDefinition(name="Region", letter="r", dtype=str),
    DimensionDefinition(name="Material", letter="m", dtype=str),
]

# name is optional in StockDefinition (and name_override in FlowDefinition), so leaving it out is legal
stock_defs = [
    StockDefinition(process="use", dim_letters=("t", "r"), subclass=SimpleFlowDrivenStock),
    StockDefinition(
        process="landfill",
        dim_letters=("t", "m"),
        subclass=InflowDrivenDSM,
        lifetime_model_class=NormalLifetime,
    ),
]
flow_defs = [
    FlowDefinition(from_process="sysenv", to_process="use", dim_letters=("t", "r")),
    # two parallel links use -> landfill with different resolution
    FlowDefinition(from_process="use", to_process="landfill", dim_letters=("t", "r")),
    FlowDefinition(from_process="use", to_process="landfill", dim_letters=("t", "m")),
    # an overriding name that equals the generated name of the first flow
    FlowDefinition(
        from_process="landfill", to_process="sysenv", dim_letters=("t",), name_override="sysenv => use"
    ),
]

failures = []
try:
    mfa = MFASystem.from_data_reader(
        MFADefinition(
            dimensions=dimensions,
            processes=["sysenv", "use", "landfill"],
            flows=flow_defs,
            stocks=stock_defs,
            parameters=[],
        ),
        Reader(),
    )
except Exception as e:
    # refusing colliding names would be in line with the statement
    print(f"system refused: {type(e).__name__}: {str(e)[:200]}")
    print("all fine (refused)")
    sys.exit(0)

print(f"stock definitions: {len(stock_defs)}   stocks in system: {len(mfa.stocks)}")
for name, s in mfa.stocks.items():
    print(f"    {name!r}: {type(s).__name__} at {s.process.name} over {s.dims.letters}")
print("    demanded: one stock per stock definition (a SimpleFlowDrivenStock at 'use' over (t,r)")
print("              AND an InflowDrivenDSM at 'landfill' over (t,m)), or a refusal")
if len(mfa.stocks) != len(stock_defs):
    failures.append("stock lost")

print(f"\nflow definitions: {len(flow_defs)}   flows in system: {len(mfa.flows)}")
for name, f in mfa.flows.items():
    print(f"    {name!r}: {f.from_process.name} -> {f.to_process.name} over {f.dims.letters}")
print("    demanded: one flow per flow definition, each from its named source to its named target")
if len(mfa.flows) != len(flow_defs):
    failures.append("flow lost")
f = mfa.flows["sysenv => use"]
if (f.from_process.name, f.to_process.name) != ("sysenv", "use"):
    print("    flow 'sysenv => use' (defined sysenv -> use over (t,r)) is now "
          f"{f.from_process.name} -> {f.to_process.name} over {f.dims.letters}")
    failures.append("flow replaced")

if failures:
    print("\nVIOLATION:", failures)
    sys.exit(1)
print("\nall fine")
sys.exit(0)
