"""C13 / f2: lifetime models whose time dimension is not the first one are accepted, by the
LifetimeModel constructor and by the DynamicStockModel that receives such a model.

Statement: "stocks and lifetime models reject arrays or models whose dimensions differ from
their own or whose time dimension is not first".
"""
import sys
import numpy as np
import flodym
from flodym import Dimension, DimensionSet, InflowDrivenDSM, NormalLifetime

print("flodym from", flodym.__file__)

t = Dimension(name="Time", letter="t", items=[2000, 2005, 2010, 2015, 2020])
v = Dimension(name="Variant", letter="v", items=[1, 2, 3, 4, 5])
dims = DimensionSet(dim_list=[t, v])
bad = False

# (a) a stock (time first, time_letter 't') gets a model over the same dims whose time dimension is 'v'
print("(a) InflowDrivenDSM(dims=(t,v), time_letter='t', lifetime_model=NormalLifetime(dims=(t,v), time_letter='v'))")
try:
    model = NormalLifetime(dims=dims, time_letter="v", mean=7.0, std=2.0)
    dsm = InflowDrivenDSM(dims=dims, time_letter="t", lifetime_model=model)
except Exception as e:
    print(f"    [ok] rejected with {type(e).__name__}")
else:
    bad = True
    print("    [BUG] accepted: the model's time dimension 'v' is the SECOND dimension.")
    dsm.inflow.values[...] = 1.0
    dsm.compute()
    ref = InflowDrivenDSM(
        dims=dims, time_letter="t",
        lifetime_model=NormalLifetime(dims=dims, time_letter="t", mean=7.0, std=2.0),
    )
    ref.inflow.values[...] = 1.0
    ref.compute()
    print("    stock[:, 0] computed with it      :", np.round(dsm.stock.values[:, 0], 4))
    print("    stock[:, 0] with the proper model :", np.round(ref.stock.values[:, 0], 4))
    print("    -> no error, silently different numbers (ages taken from the 'Variant' items).")

# (b) the lifetime model alone: time is the last dimension
print("(b) NormalLifetime(dims=(v,t), time_letter='t')")
try:
    lt = NormalLifetime(dims=DimensionSet(dim_list=[v, t]), time_letter="t", mean=7.0, std=2.0)
except Exception as e:
    print(f"    [ok] rejected with {type(e).__name__}")
else:
    bad = True
    print("    [BUG] accepted although the time dimension is not first.")
    try:
        print("    sf table shape:", lt.sf.shape, "for model shape", lt.shape,
              "(first axis of the model is NOT time, the table is meaningless)")
    except Exception as e:
        print(f"    sf fails later with {type(e).__name__}: {str(e)[:80]}")

print()
print("Statement demands: both are rejected (a Stock with time not first IS rejected by")
print("Stock.validate_time_first_dim; LifetimeModel has no such check).")
sys.exit(1 if bad else 0)
