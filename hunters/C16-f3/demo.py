"""C16: a dynamic stock model with exactly two time steps cannot be computed at all (IndexError in the
time-bounds computation), although by causality its results must equal the
first two steps of the evenly spaced three-step model that starts with the same two years."""
import sys
import numpy as np
import flodym as fd
from flodym import Dimension, DimensionSet, StockArray, InflowDrivenDSM, StockDrivenDSM
from flodym.lifetime_models import NormalLifetime

print("flodym from", fd.__file__)


def make_dims(years):
    return DimensionSet(
        dim_list=[
            Dimension(name="Time", letter="t", items=list(years)),
            Dimension(name="Region", letter="r", items=["A", "B"]),
        ]
    )


driver = np.array([[1.0, 2.0], [3.0, 4.0], [5.0, 6.0]])


def run(cls, years, field, **kw):
    d = make_dims(years)
    n = len(years)
    s = cls(
        dims=d,
        lifetime_model=NormalLifetime(dims=d, mean=2.0, std=1.0),
        **{field: StockArray(dims=d, values=driver[:n].copy())},
        **kw,
    )
    s.compute()
    return {
        "stock": s.stock.values.copy(),
        "inflow": s.inflow.values.copy(),
        "outflow": s.outflow.values.copy(),
        "stock_by_cohort": s.get_stock_by_cohort().copy(),
    }


bad = 0
cases = [
    ("InflowDrivenDSM", InflowDrivenDSM, "inflow", {}),
    ("StockDrivenDSM manual", StockDrivenDSM, "stock", {"solver": "manual"}),
    ("StockDrivenDSM lapack", StockDrivenDSM, "stock", {"solver": "lapack"}),
]
for name, cls, field, kw in cases:
    ref = run(cls, [2000, 2001, 2002], field, **kw)  # three steps work
    try:
        res = run(cls, [2000, 2001], field, **kw)  # the same model, stopped after two steps
    except Exception as e:
        bad += 1
        print(f"VIOLATION {name}: two time steps [2000, 2001] -> {type(e).__name__}: {e}")
        print("   expected stock  :", ref["stock"][:2].tolist())
        print("   expected outflow:", np.round(ref["outflow"][:2], 4).tolist())
        continue
    for key in ("stock", "inflow", "outflow"):
        if not np.allclose(res[key], ref[key][:2]):
            bad += 1
            print(f"VIOLATION {name}: '{key}' of the 2-step model {res[key].tolist()} != first two steps of the 3-step model {ref[key][:2].tolist()}")
    if not np.allclose(res["stock_by_cohort"], ref["stock_by_cohort"][:2, :2]):
        bad += 1
        print(f"VIOLATION {name}: cohort table of the 2-step model differs from the 3-step model")

print()
print("Statement demands: 'In every dynamic stock model the results at a time step depend only on driver")
print("values at that and earlier steps' - so the model over [2000, 2001] must give the first two steps of")
print("the model over [2000, 2001, 2002]; an error is not among the allowed outcomes.")
if bad:
    print(f"{bad} two-step models failed -> BUG present")
    sys.exit(1)
print("two-step models agree with the first two steps of the three-step models -> OK")
sys.exit(0)
