"""C15 / finding 2: results share their Dimension objects with the source array.

FlodymArray.copy() (docstring: "deep copies of both the DimensionSet and the numpy values array,
ensuring modifications to the copy do not affect the original"), arithmetic, cast_to and full_like
only copy the *list* of dimensions. The Dimension objects inside the result's dimension set are the
very same objects as in the source, so editing the result's dimension set in place (items or name of
one of its dimensions) silently changes the dimension set of the source - and vice versa.
Slice reads (a[...]) do not have the problem: they deep-copy the dimension set.
"""
import sys
import numpy as np
import flodym
from flodym import Dimension, DimensionSet, FlodymArray

print("flodym from", flodym.__file__)


def make():
    t = Dimension(name="Time", letter="t", items=[2000, 2010, 2020], dtype=int)
    r = Dimension(name="Region", letter="r", items=["EU", "US"], dtype=str)
    dims = DimensionSet(dim_list=[t, r])
    return FlodymArray(dims=dims, values=np.arange(6.0).reshape(3, 2), name="a")


operations = {
    "copy()": lambda a: a.copy(),
    "a + a": lambda a: a + a,
    "a * 2": lambda a: a * 2,
    "cast_to(a.dims)": lambda a: a.cast_to(a.dims),
    "full_like(a, 1.0)": lambda a: FlodymArray.full_like(a, 1.0),
    "slice read a[...]": lambda a: a[...],
}

violations = []
for label, op in operations.items():
    # (1) edit the RESULT's dimension set in place -> source must stay untouched
    a = make()
    b = op(a)
    b.dims["t"].items.append(2030)  # extend the time dimension of the result only
    b.dims["r"].name = "Country"  # rename a dimension of the result only
    src_ok = (
        a.dims["t"].items == [2000, 2010, 2020]
        and a.dims.names == ("Time", "Region")
        and a.dims.shape == a.values.shape
    )
    # (2) vice versa: edit the SOURCE's dimension set in place -> result must stay untouched
    a = make()
    b = op(a)
    a.dims["t"].items.append(2030)
    res_ok = b.dims["t"].items == [2000, 2010, 2020] and b.dims.shape == b.values.shape
    print(
        f"{label:20s} source unchanged after editing result dims: {src_ok!s:5s} | "
        f"result unchanged after editing source dims: {res_ok!s:5s}"
    )
    if not (src_ok and res_ok):
        violations.append(label)

a = make()
b = a.copy()
b.dims["t"].items.append(2030)
print("\nafter  b = a.copy(); b.dims['t'].items.append(2030):")
print("  a.dims['t'].items =", a.dims["t"].items, " a.dims.shape =", a.dims.shape,
      " a.values.shape =", a.values.shape)
print("  statement demands: a.dims['t'].items == [2000, 2010, 2020] and a.dims.shape == (3, 2)")

if violations:
    print("\nBUG: dimension objects are shared with the source for:", ", ".join(violations))
    sys.exit(1)
print("\nOK: all results carry an independent dimension set")
sys.exit(0)
