"""C14: total_size silently wraps around (int64) for a set whose shape product exceeds 2**63,
e.g. the full dimension superset of an MFA system with many dimensions."""
import sys, math
import flodym
from flodym import Dimension, DimensionSet

print("flodym from", flodym.__file__)
bad = False
cases = {
    "12 dims x 40 items": [Dimension(name=f"Dim{l}", letter=l, items=list(range(40))) for l in "abcdefghijkl"],
    "16 dims x 16 items": [Dimension(name=f"Dim{l}", letter=l, items=list(range(16))) for l in "abcdefghijklmnop"],
    "4 dims x 70000 items": [Dimension(name=f"Dim{l}", letter=l, items=list(range(70000))) for l in "abcd"],
}
for label, dl in cases.items():
    d = DimensionSet(dim_list=dl)
    expected = math.prod(d.shape)
    got = d.total_size
    ok = got == expected
    print(f"{label}: shape={d.shape[:3]}..., total_size={got}, product of shape={expected}, {'ok' if ok else 'WRONG'}")
    if not ok:
        bad = True
    # sanity: a sub-set is still right, so the value depends on nothing but the overflow
    sub = d[tuple(d.letters[:2])]
    assert sub.total_size == math.prod(sub.shape)
print("Statement demands: size, shape and total size agree with the order/contents of the set,")
print("i.e. total_size == product of shape (total number of elements), never 0/negative/wrapped.")
sys.exit(1 if bad else 0)
