"""C10: 'manual' and 'lapack' disagree as soon as the prescribed stock has a gap (NaN) anywhere."""
import sys
import numpy as np
import flodym as fd
from flodym import Dimension, DimensionSet, StockArray, InflowDrivenDSM, StockDrivenDSM
from flodym.lifetime_models import NormalLifetime

print("flodym from", fd.__file__)

t = Dimension(name="time", letter="t", items=[2000, 2001, 2002, 2003])
r = Dimension(name="region", letter="r", items=["a", "b"])
dims = DimensionSet(dim_list=[t, r])
inflow = np.array([[3.0, 5.0], [7.0, 2.0], [4.0, 4.0], [9.0, 1.0]])

ida = InflowDrivenDSM(
    dims=dims,
    inflow=StockArray(dims=dims, values=inflow.copy()),
    lifetime_model=NormalLifetime(dims=dims, mean=5, std=2),
)
ida.compute()
stock = ida.stock.values.copy()
stock[2, 0] = np.nan  # region 'a' has no stock figure for 2002; region 'b' is complete
print("prescribed stock:\n", stock)

results = {}
for solver in ("manual", "lapack"):
    sd = StockDrivenDSM(
        dims=dims,
        stock=StockArray(dims=dims, values=stock.copy()),
        lifetime_model=NormalLifetime(dims=dims, mean=5, std=2),
        solver=solver,
    )
    try:
        sd.compute()
        results[solver] = sd.inflow.values.copy()
        print(f"solver {solver}: inflow =\n", results[solver])
    except Exception as e:
        results[solver] = e
        print(f"solver {solver}: OBSERVED {type(e).__name__}: {e}")

bad = False
if any(isinstance(v, Exception) for v in results.values()):
    bad = not all(isinstance(v, Exception) for v in results.values())
    if bad:
        print("OBSERVED: one solver returns a result (complete region 'b' recovered exactly, gap of "
              "region 'a' propagated as NaN), the other one refuses the whole model.")
else:
    same = np.allclose(results["manual"], results["lapack"], equal_nan=True)
    print("both solvers returned, equal (NaN == NaN):", same)
    bad = not same
    if not np.allclose(results["lapack"][:, 1], inflow[:, 1]):
        print("OBSERVED: complete region 'b' not recovered by lapack")
        bad = True

print("DEMANDED: \"The 'manual' and 'lapack' solvers give the same result.\"")
sys.exit(1 if bad else 0)
