"""C18 / finding 2: naming a sheet for ONE dimension (or parameter) makes every other Excel
dimension (parameter) file unreadable, instead of falling back to the first sheet.

Clause: "Dimension files (CSV or Excel, the first sheet unless one is named; ...) give the items
in file order converted to the declared type, and from_csv / from_excel / from_data_reader
assemble all of this into one system."
"""
import os
import sys
import tempfile

import pandas as pd
import flodym
from flodym import (
    MFASystem,
    MFADefinition,
    DimensionDefinition,
    FlowDefinition,
    ParameterDefinition,
    ExcelDimensionReader,
)

print("flodym from", flodym.__file__)
tmp = tempfile.mkdtemp()

# one workbook per dimension; the time workbook keeps the years on its second sheet "years"
time_xlsx = os.path.join(tmp, "time.xlsx")
with pd.ExcelWriter(time_xlsx) as xw:
    pd.DataFrame(["some", "notes"]).to_excel(xw, sheet_name="readme", header=False, index=False)
    pd.DataFrame([2000, 2001, 2002]).to_excel(xw, sheet_name="years", header=False, index=False)
region_xlsx = os.path.join(tmp, "region.xlsx")  # plain workbook, items on its first (only) sheet
pd.DataFrame(["EU", "US"]).to_excel(region_xlsx, header=False, index=False)
share_xlsx = os.path.join(tmp, "share.xlsx")  # parameter on first sheet
pd.DataFrame({"Region": ["EU", "US"], "value": [0.25, 0.75]}).to_excel(share_xlsx, index=False)

time_def = DimensionDefinition(name="Time", letter="t", dtype=int)
region_def = DimensionDefinition(name="Region", letter="r", dtype=str)
definition = MFADefinition(
    dimensions=[time_def, region_def],
    processes=["sysenv", "use"],
    flows=[FlowDefinition(from_process="sysenv", to_process="use", dim_letters=("t", "r"))],
    stocks=[],
    parameters=[ParameterDefinition(name="share", dim_letters=("r",))],
)

failures = []

# sanity: without any sheet names the region file is read from its first sheet
items = ExcelDimensionReader({"Region": region_xlsx}).read_dimension(region_def).items
print("no sheet named at all      -> Region items", items)

print("\nA sheet is named for Time only; Region has none named, so its first sheet is demanded.")
try:
    reader = ExcelDimensionReader(
        {"Time": time_xlsx, "Region": region_xlsx}, dimension_sheets={"Time": "years"}
    )
    dims = reader.read_dimensions([time_def, region_def])
    got = {d.name: d.items for d in dims}
    print("    observed", got)
    if got != {"Time": [2000, 2001, 2002], "Region": ["EU", "US"]}:
        failures.append("reader: wrong items")
except Exception as e:
    print(f"    observed {type(e).__name__}: {e}")
    print("    demanded Time=[2000, 2001, 2002] (sheet 'years'), Region=['EU', 'US'] (first sheet)")
    failures.append("reader raised")

print("\nSame through MFASystem.from_excel(dimension_sheets={'Time': 'years'}):")
try:
    mfa = MFASystem.from_excel(
        definition,
        dimension_files={"Time": time_xlsx, "Region": region_xlsx},
        parameter_files={"share": share_xlsx},
        dimension_sheets={"Time": "years"},
    )
    print("    observed system with dims", {d.name: d.items for d in mfa.dims})
    if mfa.dims["r"].items != ["EU", "US"] or mfa.dims["t"].items != [2000, 2001, 2002]:
        failures.append("from_excel: wrong items")
except Exception as e:
    print(f"    observed {type(e).__name__}: {e}")
    print("    demanded a system with Time=[2000, 2001, 2002] and Region=['EU', 'US']")
    failures.append("from_excel raised")

if failures:
    print("\nVIOLATION:", failures)
    sys.exit(1)
print("\nall fine")
sys.exit(0)
