"""C19 / f2: the CSV exports write fewer files than there are flows / stock quantities when
names differ only in case, accents, punctuation or consist of non-ASCII characters:
to_valid_file_name maps them to the same file name and later files silently overwrite earlier ones."""
import os
import sys
import tempfile

import numpy as np
import pandas as pd

import flodym as fd
from flodym.export import export_mfa_flows_to_csv, export_mfa_stocks_to_csv

print("flodym from", fd.__file__)

dims = fd.DimensionSet(
    dim_list=[
        fd.Dimension(name="Time", letter="t", items=[2000, 2001, 2002], dtype=int),
        fd.Dimension(name="Region", letter="r", items=["a", "b"], dtype=str),
    ]
)
procs = fd.make_processes(["sysenv", "Förderung", "Forderung", "生産", "使用", "廃棄"])
flow_defs = [
    fd.FlowDefinition(from_process="sysenv", to_process="Förderung", dim_letters=("t", "r")),
    fd.FlowDefinition(from_process="sysenv", to_process="Forderung", dim_letters=("t", "r")),
    fd.FlowDefinition(from_process="生産", to_process="使用", dim_letters=("t", "r")),
    fd.FlowDefinition(from_process="使用", to_process="廃棄", dim_letters=("t", "r")),
    fd.FlowDefinition(from_process="廃棄", to_process="sysenv", dim_letters=("t", "r")),
    fd.FlowDefinition(from_process="sysenv", to_process="生産", dim_letters=("t", "r")),
]
flows = fd.make_empty_flows(procs, flow_defs, dims)
for i, f in enumerate(flows.values()):
    f.values = np.full(f.dims.shape, float(i + 1))
stock_defs = [
    fd.StockDefinition(name="in use", process="使用", dim_letters=("t", "r"), subclass=fd.SimpleFlowDrivenStock),
    fd.StockDefinition(name="in-use", process="Förderung", dim_letters=("t", "r"), subclass=fd.SimpleFlowDrivenStock),
    fd.StockDefinition(name="In Use", process="Forderung", dim_letters=("t", "r"), subclass=fd.SimpleFlowDrivenStock),
]
stocks = fd.make_empty_stocks(stock_defs, procs, dims)
for i, s in enumerate(stocks.values()):
    s.inflow.values = np.full(s.dims.shape, float(i + 1))
    s.compute()
mfa = fd.MFASystem(dims=dims, parameters={}, processes=procs, flows=flows, stocks=stocks)

print("flows :", list(mfa.flows))
print("stocks:", list(mfa.stocks))
bad = False
with tempfile.TemporaryDirectory() as td:
    fdir, sdir = os.path.join(td, "flows"), os.path.join(td, "stocks")
    export_mfa_flows_to_csv(mfa, fdir)
    export_mfa_stocks_to_csv(mfa, sdir, with_in_and_out=True)
    ffiles, sfiles = sorted(os.listdir(fdir)), sorted(os.listdir(sdir))
    print(f"flow  CSV files: {len(ffiles)} (statement demands {len(mfa.flows)}): {ffiles}")
    print(f"stock CSV files: {len(sfiles)} (statement demands {3 * len(mfa.stocks)}): {sfiles}")
    bad = len(ffiles) != len(mfa.flows) or len(sfiles) != 3 * len(mfa.stocks)
    # which flows are recoverable from the directory at all?
    found = set()
    for fn in ffiles:
        arr = fd.FlodymArray.from_df(dims=dims, df=pd.read_csv(os.path.join(fdir, fn)))
        for n, f in mfa.flows.items():
            if np.array_equal(arr.values, f.values):
                found.add(n)
    lost = [n for n in mfa.flows if n not in found]
    print("flows whose values are in no CSV file:", lost)
    bad = bad or bool(lost)

print("statement demands: 'the CSV exports contain every flow and every stock of the system ... "
      "there is one CSV file per flow and per exported stock quantity'")
sys.exit(1 if bad else 0)
