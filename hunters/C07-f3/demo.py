"""C07 / f3: a Dimension OBJECT that does not belong to the array is not rejected by
sum_over / sum_to / sum_values_over: only its letter is looked at.  The same unknown dimension
given by its NAME is rejected with a KeyError, so names and objects are not treated alike."""
import sys
import numpy as np
import flodym
from flodym import FlodymArray, Dimension, DimensionSet

print("flodym from", flodym.__file__)

region = Dimension(name="Region", letter="r", items=["EU", "US", "CN"])
time = Dimension(name="Time", letter="t", items=[2000, 2010])
arr = FlodymArray(dims=DimensionSet(dim_list=[region, time]), values=np.arange(6.0).reshape(3, 2))

# a dimension of another model that happens to use the letter 'r' as well
route = Dimension(name="Recycling route", letter="r", items=["shredder", "smelter"])
# a dimension whose letter does not occur in the array at all
scen = Dimension(name="Scenario", letter="s", items=["low", "high"])


def attempt(label, func):
    try:
        res = func()
    except (KeyError, ValueError, AssertionError) as exc:
        print(f"{label:55s} rejected: {type(exc).__name__}: {exc}")
        return False
    val = res.values if hasattr(res, "values") else res
    print(f"{label:55s} ACCEPTED -> {np.asarray(val).tolist()}")
    return True


print("-- given by name (reference behaviour, all rejected)")
attempt("sum_over(('Recycling route',))", lambda: arr.sum_over(("Recycling route",)))
attempt("sum_to(('Recycling route',))", lambda: arr.sum_to(("Recycling route",)))
print("-- the same unknown dimensions given as Dimension objects")
accepted = [
    attempt("sum_over((route,))   [foreign dim, letter 'r']", lambda: arr.sum_over((route,))),
    attempt("sum_to((route,))     [foreign dim, letter 'r']", lambda: arr.sum_to((route,))),
    attempt("sum_values_over((scen,)) [letter 's' not in array]", lambda: arr.sum_values_over((scen,))),
]
print()
print("statement: 'dimensions accepted as letters, names or Dimension objects alike, unknown ones rejected'")
if any(accepted):
    print("VIOLATION: a Dimension object unknown to the array was silently accepted")
    sys.exit(1)
print("OK: unknown Dimension objects are rejected")
sys.exit(0)
