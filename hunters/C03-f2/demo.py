"""C03 / finding 2: check_stock_balance() silently accepts a stock whose arrays contain NaN.

Statement: "check_stock_balance / get_stock_balance accept every computed stock and reject one
whose arrays were perturbed beyond the threshold".
The test is `if balance > 1: raise`; with a NaN anywhere in stock, inflow or outflow the maximum is
NaN, `NaN > 1` is False and the method returns silently (it does not even print the 'noteworthy'
message), i.e. a destroyed stock is reported as balanced.
"""
import sys
import io
import contextlib
import numpy as np
import flodym
from flodym import (
    Dimension, DimensionSet, SimpleFlowDrivenStock, InflowDrivenDSM, StockDrivenDSM, WeibullLifetime,
)

print("flodym from", flodym.__file__)

years = [2000, 2001, 2003, 2006, 2007]
dims = DimensionSet(
    dim_list=[
        Dimension(name="Time", letter="t", items=years, dtype=int),
        Dimension(name="Region", letter="r", items=["north", "south"]),
    ]
)
rng = np.random.default_rng(7)


def build(kind):
    lm = WeibullLifetime(dims=dims, weibull_shape=2.0, weibull_scale=4.0)
    if kind == "SimpleFlowDrivenStock":
        s = SimpleFlowDrivenStock(dims=dims)
        s.inflow.values[...] = rng.uniform(10, 20, dims.shape)
        s.outflow.values[...] = rng.uniform(0, 10, dims.shape)
    elif kind == "InflowDrivenDSM":
        s = InflowDrivenDSM(dims=dims, lifetime_model=lm)
        s.inflow.values[...] = rng.uniform(10, 20, dims.shape)
    else:
        s = StockDrivenDSM(dims=dims, lifetime_model=lm, solver="lapack")
        s.stock.values[...] = np.cumsum(rng.uniform(10, 20, dims.shape), axis=0)
    s.compute()
    return s


def verdict(s):
    buf = io.StringIO()
    try:
        with contextlib.redirect_stdout(buf):
            s.check_stock_balance()
        return "accepted"
    except RuntimeError:
        return "rejected"


bad = 0
for kind in ["SimpleFlowDrivenStock", "InflowDrivenDSM", "StockDrivenDSM"]:
    for which in ["stock", "inflow", "outflow"]:
        s = build(kind)
        v0 = verdict(s)
        arr = getattr(s, which).values
        arr[2, 1] += 1000.0  # finite perturbation far beyond the threshold
        v1 = verdict(s)
        arr[2, 1] = np.nan  # the entry is destroyed completely
        v2 = verdict(s)
        print(f"{kind:22s} {which:8s}: computed -> {v0}; +1000 -> {v1}; NaN -> {v2}")
        if v0 != "accepted" or v1 != "rejected":
            print("   unexpected baseline behaviour")
            bad += 1
        if v2 != "rejected":
            bad += 1

print()
print("statement demands : a stock whose arrays were perturbed beyond the threshold is rejected")
if bad:
    print(f"observed          : {bad} stocks with a NaN entry were silently accepted")
    sys.exit(1)
print("observed          : every perturbed stock rejected")
sys.exit(0)
