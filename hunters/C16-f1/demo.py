"""C16 / causality: a NaN (or inf) driver value at a LATER time step destroys the results of all
EARLIER time steps (0 * nan = nan on the structurally-zero upper triangle of the cohort tables)."""
import sys
import warnings
import numpy as np
import flodym as fd
from flodym import Dimension, DimensionSet, StockArray, InflowDrivenDSM, StockDrivenDSM
from flodym.lifetime_models import NormalLifetime

warnings.simplefilter("ignore")
print("flodym from", fd.__file__)

t = Dimension(name="Time", letter="t", items=[2000, 2001, 2002, 2003, 2004])
r = Dimension(name="Region", letter="r", items=["A", "B"])
dims = DimensionSet(dim_list=[t, r])
base = np.arange(1.0, 11.0).reshape(5, 2)
n = 5
bad = 0


def lm():
    return NormalLifetime(dims=dims, mean=2.0, std=1.0)


def same(x, y):
    return np.array_equal(x, y, equal_nan=False)


def run_inflow_driven(values):
    s = InflowDrivenDSM(dims=dims, inflow=StockArray(dims=dims, values=values.copy()), lifetime_model=lm())
    s.compute()
    return dict(
        stock=s.stock.values.copy(),
        outflow=s.outflow.values.copy(),
        stock_by_cohort=s.get_stock_by_cohort().copy(),
        outflow_by_cohort=s.get_outflow_by_cohort().copy(),
    )


def run_stock_driven(values):
    s = StockDrivenDSM(dims=dims, stock=StockArray(dims=dims, values=values.copy()), lifetime_model=lm(), solver="manual")
    s.compute()
    return dict(
        inflow=s.inflow.values.copy(),
        outflow=s.outflow.values.copy(),
        stock_by_cohort=s.get_stock_by_cohort().copy(),
        outflow_by_cohort=s.get_outflow_by_cohort().copy(),
    )


for label, runner in (("InflowDrivenDSM", run_inflow_driven), ("StockDrivenDSM(manual)", run_stock_driven)):
    ref = runner(base)
    for special in (np.nan, np.inf):
        drv = base.copy()
        drv[n - 1, 0] = special  # only the LAST time step, only region A
        res = runner(drv)
        for key in ref:
            # statement: results at steps 0..n-2 depend only on driver values at steps 0..n-2
            ok = same(res[key][: n - 1], ref[key][: n - 1])
            if not ok:
                bad += 1
                print(f"VIOLATION {label}: driver[{t.items[-1]}, A] = {special} changes '{key}' at earlier steps")
                if ref[key].ndim == 3:  # cohort table [t, c, r]: show entries of the last cohort at earlier times
                    e, o = ref[key][: n - 1, n - 1, 0], res[key][: n - 1, n - 1, 0]
                    what = "t=0..3, cohort 2004, region A"
                else:
                    e, o = ref[key][: n - 1, 0], res[key][: n - 1, 0]
                    what = "t=0..3, region A"
                print(f"   expected ({what}):", np.round(e, 4))
                print(f"   observed ({what}):", o)

print()
print("Statement demands: 'the results at a time step depend only on driver values at that and earlier steps'.")
if bad:
    print(f"{bad} result tables of earlier steps were changed by a special value in the last step -> BUG present")
    sys.exit(1)
print("all earlier-step results unaffected -> OK")
sys.exit(0)
