"""C07 / f1: sum_to / sum_over hand out a numpy VIEW of the source array whenever nothing is
actually summed away (all dimensions kept, in any order).  Writing into the result - with the
public item assignment or the documented `.values[...] = ` idiom - silently overwrites the
source array, so the source's totals change.  With at least one dimension summed away (or with
an integer source) the result is independent, so the behaviour depends on the dims the array
happens to have."""
import sys
import numpy as np
import flodym
from flodym import FlodymArray, Dimension, DimensionSet

print("flodym from", flodym.__file__)

r = Dimension(name="Region", letter="r", items=["EU", "US", "CN"])
t = Dimension(name="Time", letter="t", items=[2000, 2010])
dims = DimensionSet(dim_list=[r, t])
bad = []


def fresh():
    return FlodymArray(dims=dims, values=np.arange(1.0, 7.0).reshape(3, 2), name="flow")


# 1) sum_to with the same dims in another order (a legitimate "reorder" request)
src = fresh()
before = src.values.copy()
res = src.sum_to(("t", "r"))
assert np.array_equal(res.values, before.T)  # the marginal sums themselves are right
res[{"r": "EU"}] = 0.0  # public item assignment on the RESULT
print("sum_to(('t','r')); result[{'r':'EU'}] = 0  -> source now:\n", src.values)
if not np.array_equal(src.values, before):
    bad.append("sum_to(('t','r'))")

# 2) sum_to with names, same order
src = fresh()
res = src.sum_to(("Region", "Time"))
res.values[...] = -1.0  # idiom recommended in the FlodymArray docstring
print("sum_to(('Region','Time')); result.values[...] = -1 -> source total:", src.sum_values())
if not np.array_equal(src.values, before):
    bad.append("sum_to(('Region','Time'))")

# 3) sum_over with nothing to sum over
src = fresh()
res = src.sum_over(())
res[{"t": 2010}] = 100.0
print("sum_over(()); result[{'t':2010}] = 100 -> source total:", src.sum_values())
if not np.array_equal(src.values, before):
    bad.append("sum_over(())")

# reference: as soon as something is summed away the result is independent
src = fresh()
res = src.sum_to(("r",))
res.values[...] = 0.0
assert np.array_equal(src.values, before)

print()
print("statement: 'sum_to and sum_over return exactly the marginal sums by label (grand total")
print("            preserved ...)' - a returned array; the source must stay untouched.")
if bad:
    print("OBSERVED : writing into the result of", bad, "overwrote the source array (shared memory).")
    sys.exit(1)
print("OK: results are independent of the source")
sys.exit(0)
