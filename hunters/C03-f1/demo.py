"""C03 / finding 1: check_stock_balance() rejects correctly computed stocks when the numbers are large.

Statement: "check_stock_balance / get_stock_balance accept every computed stock".
The acceptance test compares the summed absolute float round-off with the absolute constant 1,
independent of the magnitude of the data, so a stock that is balanced to the last bit
(relative residual ~1e-16) is rejected as soon as the values are big enough, e.g. a global
material cycle expressed in kg/yr over 1900..2100.  The same data expressed in tonnes is accepted.
"""
import sys
import numpy as np
import flodym
from flodym import (
    Dimension, DimensionSet, SimpleFlowDrivenStock, InflowDrivenDSM, StockDrivenDSM, LogNormalLifetime,
)

print("flodym from", flodym.__file__)

years = list(range(1900, 2101))
dims = DimensionSet(
    dim_list=[
        Dimension(name="Time", letter="t", items=years, dtype=int),
        Dimension(name="Region", letter="r", items=["north", "south"]),
    ]
)
rng = np.random.default_rng(12345)
profile = rng.uniform(1.0, 2.0, dims.shape)  # smooth-ish positive series
profile_out = rng.uniform(0.0, 1.0, dims.shape)


def build(kind, scale):
    lm = LogNormalLifetime(dims=dims, mean=40.0, std=12.0)
    if kind == "SimpleFlowDrivenStock":
        s = SimpleFlowDrivenStock(dims=dims)
        s.inflow.values[...] = profile * scale
        s.outflow.values[...] = profile_out * scale
    elif kind == "InflowDrivenDSM":
        s = InflowDrivenDSM(dims=dims, lifetime_model=lm)
        s.inflow.values[...] = profile * scale
    else:
        s = StockDrivenDSM(dims=dims, lifetime_model=lm, solver=kind.split(":")[1])
        s.stock.values[...] = np.cumsum(profile, axis=0) * scale
    s.compute()
    return s


def relative_residual(s):
    """independent check of stock(t)-stock(t-1) = dt*(inflow-outflow); dt = 1 for yearly items"""
    ds = np.diff(s.stock.values, axis=0, prepend=0)
    res = ds - (s.inflow.values - s.outflow.values) * 1.0
    return np.max(np.abs(res)) / np.max(np.abs(s.stock.values))


bad = 0
for kind in ["SimpleFlowDrivenStock", "InflowDrivenDSM", "StockDrivenDSM:manual", "StockDrivenDSM:lapack"]:
    for unit, scale in [("t/yr ", 1e10), ("kg/yr", 1e13)]:
        s = build(kind, scale)
        rel = relative_residual(s)
        try:
            s.check_stock_balance()
            verdict = "accepted"
        except RuntimeError as e:
            verdict = "REJECTED (" + str(e) + ")"
        print(f"{kind:24s} flows ~{scale:.0e} {unit}: relative residual {rel:.1e} -> {verdict}")
        if rel < 1e-13 and verdict != "accepted":
            bad += 1

print()
print("statement demands : every computed stock (balanced up to float rounding) is accepted")
if bad:
    print(f"observed          : {bad} correctly computed stocks were rejected by check_stock_balance()")
    sys.exit(1)
print("observed          : all computed stocks accepted")
sys.exit(0)
