"""C06 / items_where on a zero-dimensional array (e.g. the result of arr['EUR', 2000])
does not report the single entry when the condition holds."""
import sys
import numpy as np
import flodym
from flodym import Dimension, DimensionSet, FlodymArray

print("flodym from", flodym.__file__)

time = Dimension(name="Time", letter="t", items=[2000, 2001])
region = Dimension(name="Region", letter="r", items=["EUR", "USA"])
arr = FlodymArray(dims=DimensionSet(dim_list=[time, region]), values=np.array([[1.0, 2.0], [3.0, 4.0]]))

cell = arr[{"t": 2001, "r": "USA"}]  # zero-dimensional FlodymArray, value 4.0
print("cell dims:", cell.dims.letters, "value:", cell.values)

hit = cell.items_where(lambda v: v > 0)  # condition holds for the one entry
miss = cell.items_where(lambda v: v < 0)  # condition does not hold
print("condition true  ->", repr(hit), "shape", hit.shape)
print("condition false ->", repr(miss), "shape", miss.shape)

# reference: what the same call reports for a 1-d array, one row per matching entry
one_d = arr[{"t": 2001}]
print("1-d reference   ->", one_d.items_where(lambda v: v > 0).shape, "(rows = matching entries, cols = ndim)")

print("Statement demands: 'items_where ... report entries under their true labels': one matching entry "
      "with an empty label tuple, i.e. shape (1, 0), distinguishable from no match, shape (0, 0).")
bad = len(hit) != 1 or hit.shape != (1, 0) or len(miss) != 0
if bad:
    print("VIOLATION: the matching entry is not reported (%d rows); match and no-match are indistinguishable" % len(hit))
sys.exit(1 if bad else 0)
