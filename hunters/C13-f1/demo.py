"""C13 / f1: a Stock accepts inflow/outflow/stock arrays whose dimensions differ from its own
(same letters, but other items / another length).

Statement: "stocks and lifetime models reject arrays or models whose dimensions differ from
their own" and "Arrays always have the shape of their dimensions ... instead of broadcasting".
"""
import sys
import numpy as np
import flodym
from flodym import Dimension, DimensionSet, StockArray, SimpleFlowDrivenStock

print("flodym from", flodym.__file__)

t5 = Dimension(name="Time", letter="t", items=[2000, 2001, 2002, 2003, 2004])
t1 = Dimension(name="Time", letter="t", items=[2000])
t4 = Dimension(name="Time", letter="t", items=[2000, 2001, 2002, 2003])
t5_other = Dimension(name="Time", letter="t", items=[1990, 1991, 1992, 1993, 1994])
r = Dimension(name="Region", letter="r", items=["a", "b", "c"])
own = DimensionSet(dim_list=[t5, r])

cases = {
    "inflow over a 1-item time dimension": DimensionSet(dim_list=[t1, r]),
    "inflow over a 4-item time dimension": DimensionSet(dim_list=[t4, r]),
    "inflow over 5 other years (1990-1994)": DimensionSet(dim_list=[t5_other, r]),
}

bad = False
for label, dims in cases.items():
    inflow = StockArray(dims=dims, values=np.ones(dims.shape))
    try:
        stock = SimpleFlowDrivenStock(dims=own, inflow=inflow)
    except Exception as e:  # this is what the statement demands
        print(f"[ok]  {label}: rejected with {type(e).__name__}")
        continue
    bad = True
    print(f"[BUG] {label}: accepted.")
    print(f"      stock.shape = {stock.shape}, stock.inflow.values.shape = {stock.inflow.values.shape},"
          f" inflow time items = {stock.inflow.dims['t'].items}, stock time items = {stock.dims['t'].items}")
    try:
        stock.compute()
        print("      compute() ran; stock.values[:, 0] =", stock.stock.values[:, 0],
              "(inflow of one year silently broadcast / relabelled)")
    except Exception as e:
        print(f"      compute() only fails later with {type(e).__name__}: {str(e)[:90]}")

print()
print("Statement demands: every one of these constructor calls raises, because the array's")
print("dimensions differ from the stock's own dimensions.")
sys.exit(1 if bad else 0)
