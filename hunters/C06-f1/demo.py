"""C06 / items_where: labels of integer-typed dimensions are reported as strings
as soon as another dimension of the array has string items (the standard flodym
layout: integer years next to string regions)."""
import sys
import numpy as np
import flodym
from flodym import Dimension, DimensionSet, FlodymArray

print("flodym from", flodym.__file__)

time = Dimension(name="Time", letter="t", items=[2000, 2001, 2002], dtype=int)
region = Dimension(name="Region", letter="r", items=["EUR", "USA"], dtype=str)
arr = FlodymArray(
    dims=DimensionSet(dim_list=[time, region]),
    values=np.arange(6.0).reshape(3, 2),
)

hits = arr.items_where(lambda v: v == 5.0)  # exactly the entry (2002, 'USA')
print("items_where returned:", repr(hits))
row = list(hits[0])
t_label, r_label = row
print("reported Time label:", repr(t_label), type(t_label))
print("true Time labels   :", time.items)

bad = False
if t_label not in time.items:
    print("VIOLATION: reported Time label", repr(t_label), "is not an item of the Time dimension")
    bad = True
try:
    back = arr[{"t": t_label, "r": r_label}]
    print("reading the entry back under the reported labels gives", back.values)
    if float(back.values) != 5.0:
        bad = True
except Exception as e:  # noqa
    print("VIOLATION: the reported labels do not address any entry:", type(e).__name__, e)
    bad = True

# same array without a string dimension: labels come back as they are
arr_t = arr[{"r": "USA"}]
print("1-d control (only Time):", repr(arr_t.items_where(lambda v: v == 5.0)))

print(
    "Statement demands: 'items_where and split report entries under their true labels' "
    "-> expected the label 2002 (int), which is what split() and indexing use."
)
sys.exit(1 if bad else 0)
