"""C05 / finding 1: after a whole-array assignment of an integer (or bool) ndarray, later
assignments of numbers and of FlodymArrays silently lose their fractional part.

Statement: "a number fills the region" and "A FlodymArray right-hand side is matched by label and
summed over the dimensions the addressed region does not have"; "an assigned ndarray is always
copied".  What is written by `target[key] = rhs` must therefore depend on target dims, key and rhs
only - not on the dtype of an ndarray that was assigned to the target some time before.
"""
import sys
import warnings
import numpy as np
import flodym
from flodym import Dimension, DimensionSet, FlodymArray

print("flodym from", flodym.__file__)

t = Dimension(name="Time", letter="t", items=[2000, 2010])
r = Dimension(name="Region", letter="r", items=["a", "b", "c"])
p = Dimension(name="Product", letter="p", items=["x", "y"])
dims = DimensionSet(dim_list=[t, r])

bad = []

# --- history 1: declared (float zeros), then an ndarray of whole numbers is assigned ----------
target = FlodymArray(dims=dims)  # declared array, float64 zeros
print("declared dtype:", target.values.dtype)
target[...] = np.array([[1, 2, 3], [4, 5, 6]])  # correct shape, whole numbers
print("dtype after target[...] = int ndarray:", target.values.dtype)

target["a"] = 0.5  # a number fills the region (t, r='a')
got = target.values[:, 0].tolist()
print("target['a'] = 0.5           -> region now holds", got, "  (statement demands [0.5, 0.5])")
if got != [0.5, 0.5]:
    bad.append("number 0.5 written as %r" % got)

rhs = FlodymArray(dims=DimensionSet(dim_list=[p, r, t]), values=np.full((2, 3, 2), 0.25))
target[...] = rhs  # summed over p: every entry must become 0.5
got = target.values.tolist()
print("target[...] = rhs (0.25 x 2)  ->", got, "  (statement demands all 0.5)")
if not np.allclose(np.asarray(got, dtype=float), 0.5):
    bad.append("FlodymArray rhs summed to 0.5 written as %r" % got)

try:
    with warnings.catch_warnings():
        warnings.simplefilter("ignore")
        target[{"t": 2010, "r": "c"}] = float("nan")
    got = target.values[1, 2]
except Exception as e:  # noqa
    got = "%s: %s" % (type(e).__name__, e)
print("target[t=2010,r=c] = nan    ->", got, "  (statement demands nan)")
if not (isinstance(got, (float, np.floating)) and np.isnan(got)):
    bad.append("nan gave %r" % (got,))

# --- same array, same statements, but the earlier ndarray happened to be float -----------------
control = FlodymArray(dims=dims)
control[...] = np.array([[1.0, 2, 3], [4, 5, 6]])
control["a"] = 0.5
print("control (float ndarray before): region holds", control.values[:, 0].tolist())

# --- history 2: the library's own constructor helper with a whole-number fill value -----------
ones = FlodymArray.full(dims, 1)
ones["b"] = 0.5
got = ones.values[:, 1].tolist()
print("FlodymArray.full(dims, 1); ones['b'] = 0.5 ->", got, "  (statement demands [0.5, 0.5])")
print("   (informational only - the exit code is decided by history 1)")

if bad:
    print("\nVIOLATION:", "; ".join(bad))
    sys.exit(1)
print("\nOK")
sys.exit(0)
