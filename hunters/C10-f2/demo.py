"""C10: integer-valued inflow / stock arrays are truncated when the inverse model writes its result."""
import sys
import numpy as np
import flodym as fd
from flodym import Dimension, DimensionSet, StockArray, InflowDrivenDSM, StockDrivenDSM
from flodym.lifetime_models import NormalLifetime

print("flodym from", fd.__file__)

t = Dimension(name="time", letter="t", items=[2000, 2001, 2002, 2003])
r = Dimension(name="region", letter="r", items=["a", "b"])
dims = DimensionSet(dim_list=[t, r])
bad = False

# --- direction 1: inflow-driven -> stock-driven ------------------------------------------------
counts = np.array([[3, 5], [7, 2], [4, 4], [9, 1]])  # e.g. number of vehicles sold, int64
print("original inflow      :", counts.tolist(), counts.dtype)
for solver in ("manual", "lapack"):
    ida = InflowDrivenDSM(
        dims=dims,
        inflow=StockArray(dims=dims, values=counts.copy()),
        lifetime_model=NormalLifetime(dims=dims, mean=5, std=2),
    )
    ida.compute()
    outflow_ref = ida.outflow.values.copy()
    sd = ida.to_stock_type(StockDrivenDSM, solver=solver)  # documented way to switch the model type
    sd.compute()
    print(f"inflow found by stock-driven model ({solver}):", sd.inflow.values.tolist())
    if not np.allclose(sd.inflow.values, counts):
        print("   -> OBSERVED: differs from the original inflow by up to",
              np.abs(sd.inflow.values - counts).max())
        bad = True
    if not np.allclose(sd.outflow.values, outflow_ref):
        print("   -> OBSERVED: outflow differs by up to", np.abs(sd.outflow.values - outflow_ref).max())
        bad = True

# --- direction 2: stock-driven -> inflow-driven ------------------------------------------------
t8 = Dimension(name="time", letter="t", items=list(range(2000, 2008)))
dims = DimensionSet(dim_list=[t8, r])
prescribed = np.array(  # integer stock (fleet size)
    [[8, 14], [24, 24], [35, 43], [52, 62], [62, 77], [81, 91], [98, 106], [113, 116]]
)
print("prescribed stock     :", prescribed.tolist(), prescribed.dtype)
sd = StockDrivenDSM(
    dims=dims,
    stock=StockArray(dims=dims, values=prescribed.copy()),
    lifetime_model=NormalLifetime(dims=dims, mean=5, std=2),
)
sd.compute()
ida = sd.to_stock_type(InflowDrivenDSM)
ida.compute()
print("stock reproduced by inflow-driven model:", ida.stock.values.tolist())
if not np.allclose(ida.stock.values, prescribed):
    print("   -> OBSERVED: differs from the prescribed stock by up to",
          np.abs(ida.stock.values - prescribed).max())
    bad = True

print(
    "DEMANDED: 'Feeding the stock computed by an inflow-driven model into a stock-driven model with "
    "the same lifetime model returns the original inflow, the same outflow ...' and 'conversely ... "
    "reproduces the prescribed stock' - whole units must not get lost because the values happened "
    "to be stored as integers."
)
sys.exit(1 if bad else 0)
