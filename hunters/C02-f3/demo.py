"""C02 finding 3: if every contribution of a process is defined over an empty dimension (a
Dimension with zero items, e.g. a scenario without any waste type), the balance array is empty and
check_mass_balance dies in np.max with 'zero-size array to reduction operation maximum' - a
ValueError, i.e. the very exception type that signals a *violated* balance."""
import sys
import numpy as np
import flodym
from flodym import Dimension, DimensionSet, Flow, MFASystem, make_processes

print("flodym from:", flodym.__file__)

t = Dimension(name="Time", letter="t", items=[2000, 2001, 2002])
w = Dimension(name="Waste type", letter="w", items=[], dtype=str)  # legitimately empty
dims = DimensionSet(dim_list=[t, w])
procs = make_processes(["sysenv", "use", "waste"])

flows = {
    "in": Flow(from_process=procs["sysenv"], to_process=procs["use"], dims=dims[("t",)], name="in",
               values=np.full(3, 5.0)),
    "out": Flow(from_process=procs["use"], to_process=procs["sysenv"], dims=dims[("t",)], name="out",
                values=np.full(3, 5.0)),
    # the waste branch is resolved by waste type, of which there is none in this data set
    "to_waste": Flow(from_process=procs["use"], to_process=procs["waste"], dims=dims, name="to_waste"),
    "waste_out": Flow(from_process=procs["waste"], to_process=procs["sysenv"], dims=dims, name="waste_out"),
}
mfa = MFASystem(dims=dims, parameters={}, processes=procs, flows=flows)
print("shapes:", {k: f.values.shape for k, f in flows.items()})

bad = False
for label, fn in [
    ("check_mass_balance()", lambda: mfa.check_mass_balance()),
    ("check_mass_balance(tolerance=1e-9)", lambda: mfa.check_mass_balance(tolerance=1e-9)),
    ("check_mass_balance(raise_error=False)", lambda: mfa.check_mass_balance(raise_error=False)),
    ("check_flows(raise_error=True)", lambda: mfa.check_flows(raise_error=True)),
]:
    try:
        fn()
        print(f"  {label}: succeeded (as demanded: nothing exceeds the tolerance)")
    except Exception as ex:  # noqa
        bad = True
        print(f"  {label}: RAISED {type(ex).__name__}: {ex}   <-- statement demands success")

print()
print("Statement: 'check_mass_balance succeeds exactly when, for every process, inflows minus outflows"
      " ... stay within the tolerance in absolute value; otherwise it raises (or logs a warning when"
      " raise_error=False)'. Process 'waste' has an empty balance array - nothing exceeds the tolerance.")
if bad:
    print("BUG PRESENT: balanced system with an empty dimension is rejected with a ValueError.")
    sys.exit(1)
print("OK")
sys.exit(0)
