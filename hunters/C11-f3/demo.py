"""C11 / f3: from_df silently files a row under a label it does not carry: labels of an int-typed
dimension are truncated with int(), so the row labelled 1.7 is taken as the row of item 1."""
import sys
import logging
import numpy as np
import pandas as pd
import flodym
from flodym import Dimension, DimensionSet, FlodymArray

logging.disable(logging.CRITICAL)
print("flodym from", flodym.__file__)

time = Dimension(name="Time", letter="t", items=[1, 2, 3], dtype=int)
reg = Dimension(name="Region", letter="r", items=["a", "b"])
dims = DimensionSet(dim_list=[time, reg])

df = pd.DataFrame(
    {
        "Time": [1.7, 1.7, 2.0, 2.0, 3.0, 3.0],  # there is NO row for Time == 1
        "Region": ["a", "b", "a", "b", "a", "b"],
        "value": [10.0, 20.0, 30.0, 40.0, 50.0, 60.0],
    }
)
print(df)
df_before = df.copy()

violation = False
try:
    arr = FlodymArray.from_df(dims, df)
except Exception as e:  # noqa
    print(f"from_df raised {type(e).__name__}: {str(e)[:200]}  -> fine, row label 1.7 is no item")
else:
    print("from_df returned:")
    print(arr.values)
    print(f"entry (Time=1, Region='a') = {arr.values[0, 0]}  but no row of the frame carries the label Time=1")
    violation = True

# the same with a label that is far away from any item: -0.9 -> int() -> 0
time0 = Dimension(name="Time", letter="t", items=[0, 1], dtype=int)
dims0 = DimensionSet(dim_list=[time0])
df0 = pd.DataFrame({"Time": [-0.9, 1.0], "value": [5.0, 6.0]})
try:
    arr0 = FlodymArray.from_df(dims0, df0)
except Exception as e:  # noqa
    print(f"from_df (labels -0.9, 1.0) raised {type(e).__name__} -> fine")
else:
    print("from_df with labels [-0.9, 1.0] for items [0, 1] returned", arr0.values)
    violation = True

print()
print("Statement demands: 'Whenever from_df returns at all, every entry it sets comes from the unique")
print("row carrying that entry's labels.' A row labelled 1.7 (or -0.9) does not carry the label 1 (or 0);")
print("from_df must reject it like any other unknown item instead of silently truncating the label.")
if violation:
    print("OBSERVED: VIOLATION - silent acceptance, value stored under a label no row carries")
    sys.exit(1)
print("OBSERVED: ok")
sys.exit(0)
