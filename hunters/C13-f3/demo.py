"""C13 / f3: a failed LifetimeModel.set_prms changes the model.

Statement: "lifetime models reject arrays ... whose dimensions differ from their own" and
"failed calls change nothing ... An operation that raises leaves every array involved exactly
as it was".
"""
import sys
import numpy as np
import flodym
from flodym import Dimension, DimensionSet, FlodymArray, NormalLifetime, WeibullLifetime

print("flodym from", flodym.__file__)

t = Dimension(name="Time", letter="t", items=[2000, 2001, 2002, 2003, 2004])
r = Dimension(name="Region", letter="r", items=["a", "b", "c"])
x = Dimension(name="Other", letter="x", items=["p", "q"])
dims = DimensionSet(dim_list=[t, r])
bad = False

lt = NormalLifetime(dims=dims, mean=3.0, std=1.0)
sf_before = lt.sf.copy()
mean_before, std_before = lt.mean.copy(), lt.std.copy()

good_mean = FlodymArray(dims=dims, values=np.full(dims.shape, 10.0))
foreign_std = FlodymArray(dims=DimensionSet(dim_list=[t, x]), values=np.ones((5, 2)))  # dims differ
try:
    lt.set_prms(mean=good_mean, std=foreign_std)
    print("set_prms with a std over a foreign dimension was accepted?!")
    bad = True
except Exception as e:
    print(f"NormalLifetime.set_prms(mean=<ok>, std=<array over (t,x)>) raised {type(e).__name__} (as demanded)")

print("  mean before the failed call:", mean_before[0], " after:", lt.mean[0])
print("  std  before the failed call:", std_before[0], " after:", lt.std[0])
print("  cached sf still the table of mean=3:", np.array_equal(lt.sf, sf_before))
if not (np.array_equal(lt.mean, mean_before) and np.array_equal(lt.std, std_before)):
    bad = True
    print("  [BUG] the failed call replaced `mean` (3 -> 10) but not `std`, and did not discard the")
    print("        cached tables: the model now reports mean=10 while sf/pdf belong to mean=3.")

# same with plain numpy input of a wrong shape, and for the Weibull model
wb = WeibullLifetime(dims=dims, weibull_shape=2.0, weibull_scale=5.0)
shape_before = wb.weibull_shape.copy()
try:
    wb.set_prms(weibull_shape=4.0, weibull_scale=np.ones(7))
except Exception as e:
    print(f"WeibullLifetime.set_prms(weibull_shape=4.0, weibull_scale=np.ones(7)) raised {type(e).__name__}")
print("  weibull_shape before:", shape_before[0], " after:", wb.weibull_shape[0])
if not np.array_equal(wb.weibull_shape, shape_before):
    bad = True
    print("  [BUG] weibull_shape was replaced by the failed call.")

print()
print("Statement demands: a set_prms call that raises leaves mean/std (shape/scale) and the")
print("tables exactly as they were.")
sys.exit(1 if bad else 0)
