"""C02 finding 1: default tolerance breaks on integer-valued flows (np.finfo on the dtype of the
*first* flow), so check_mass_balance / check_flows raise a spurious ValueError for a perfectly
balanced, non-negative system - and whether they do depends on the order of the flows dict."""
import sys
import numpy as np
import flodym
from flodym import Dimension, DimensionSet, Flow, MFASystem, make_processes

print("flodym from:", flodym.__file__)

t = Dimension(name="Time", letter="t", items=[2000, 2001, 2002])
g = Dimension(name="Good", letter="g", items=["car", "bus"])
dims = DimensionSet(dim_list=[t, g])
procs = make_processes(["sysenv", "use"])


def build(first_dtype, second_dtype, order=("in", "out")):
    # vehicle counts: 5 units enter 'use', 5 units leave it -> exactly balanced, nothing negative
    fl = {
        "in": Flow(from_process=procs["sysenv"], to_process=procs["use"], dims=dims, name="in",
                   values=np.full((3, 2), 5, dtype=first_dtype)),
        "out": Flow(from_process=procs["use"], to_process=procs["sysenv"], dims=dims, name="out",
                    values=np.full((3, 2), 5, dtype=second_dtype)),
    }
    return MFASystem(dims=dims, parameters={}, processes=procs,
                     flows={k: fl[k] for k in order})


bad = False


def expect_ok(label, fn):
    global bad
    try:
        fn()
        print(f"  {label}: succeeded (as the statement demands)")
    except Exception as ex:  # noqa
        bad = True
        print(f"  {label}: RAISED {type(ex).__name__}: {ex}   <-- statement demands success")


print("Balanced system, int64 flows, default tolerance:")
expect_ok("check_mass_balance()", lambda: build(np.int64, np.int64).check_mass_balance())
expect_ok("check_flows(raise_error=True)", lambda: build(np.int64, np.int64).check_flows(raise_error=True))
print("Same system with explicit tolerance (for comparison):")
expect_ok("check_mass_balance(tolerance=1e-9)", lambda: build(np.int64, np.int64).check_mass_balance(tolerance=1e-9))

print("Mixed dtypes - result must not depend on the order of the flows dict:")
expect_ok("flows ordered (float64 'in', int64 'out')",
          lambda: build(np.float64, np.int64, order=("in", "out")).check_mass_balance())
expect_ok("flows ordered (int64 'out', float64 'in')",
          lambda: build(np.float64, np.int64, order=("out", "in")).check_mass_balance())

print()
print("Statement: 'check_mass_balance succeeds exactly when ... stay within the tolerance ...;"
      " This holds for every system graph ... and with the default tolerance scaled to the largest"
      " flow or stock magnitude.'")
if bad:
    print("BUG PRESENT: a balanced / non-negative system is rejected with a ValueError from np.finfo.")
    sys.exit(1)
print("OK")
sys.exit(0)
