"""C10 / 'on any time grid': a time grid with two time steps makes every dynamic stock model fail."""
import sys
import numpy as np
import flodym as fd
from flodym import Dimension, DimensionSet, StockArray, InflowDrivenDSM, StockDrivenDSM
from flodym.lifetime_models import NormalLifetime

print("flodym from", fd.__file__)

t = Dimension(name="time", letter="t", items=[2000, 2010])  # two time steps, spacing 10 years
r = Dimension(name="region", letter="r", items=["a", "b"])
dims = DimensionSet(dim_list=[t, r])
inflow_values = np.array([[3.0, 5.0], [7.0, 2.0]])

bad = False
try:
    ida = InflowDrivenDSM(
        dims=dims,
        inflow=StockArray(dims=dims, values=inflow_values.copy()),
        lifetime_model=NormalLifetime(dims=dims, mean=30, std=8),
    )
    ida.compute()
    print("inflow-driven stock:", ida.stock.values.tolist())
    for solver in ("manual", "lapack"):
        sd = StockDrivenDSM(
            dims=dims,
            stock=StockArray(dims=dims, values=ida.stock.values.copy()),
            lifetime_model=NormalLifetime(dims=dims, mean=30, std=8),
            solver=solver,
        )
        sd.compute()
        ok = (
            np.allclose(sd.inflow.values, inflow_values)
            and np.allclose(sd.outflow.values, ida.outflow.values)
            and np.allclose(sd.get_stock_by_cohort(), ida.get_stock_by_cohort())
            and np.allclose(sd.get_outflow_by_cohort(), ida.get_outflow_by_cohort())
        )
        print(f"solver {solver}: round trip reproduces inflow/outflow/cohort tables: {ok}")
        bad |= not ok
except Exception as e:
    print(f"OBSERVED: {type(e).__name__}: {e}")
    bad = True

print(
    "DEMANDED: the statement holds 'on any time grid'; a grid of two time steps (one spacing, "
    "extrapolated to both outer bounds) is a legitimate grid, so the inflow-driven model must "
    "compute and the stock-driven model must return the original inflow."
)
sys.exit(1 if bad else 0)
