"""C03 / finding 3: a call of the public LifetimeModel.compute_survival_factor() makes the next
compute() produce stocks that violate the mass balance.

Statement: "After compute() on any stock class ... stock(t) - stock(t-1) = dt(t) * (inflow(t) -
outflow(t)) ... check_stock_balance / get_stock_balance accept every computed stock".
compute_survival_factor() is documented as "The method does nothing if the sf already exists",
but it ADDS the survival factors onto the cached table (`self._sf[...] += ...`), so the table is
doubled, while the cached outflow table (pdf) stays as it was.  The next compute() therefore takes
the stock from one table and the outflow from another one.
"""
import sys
import numpy as np
import flodym
from flodym import Dimension, DimensionSet, InflowDrivenDSM, StockDrivenDSM, NormalLifetime

print("flodym from", flodym.__file__)

years = [2000, 2001, 2003, 2006, 2007]
dims = DimensionSet(
    dim_list=[
        Dimension(name="Time", letter="t", items=years, dtype=int),
        Dimension(name="Region", letter="r", items=["north", "south"]),
    ]
)
it = np.array(years, float)
mid = (it[:-1] + it[1:]) / 2
bounds = np.concatenate(([mid[0] - (mid[1] - mid[0])], mid, [mid[-1] + (mid[-1] - mid[-2])]))
dt = np.diff(bounds)[:, None]  # documented interval lengths


def residual(s):
    ds = np.diff(s.stock.values, axis=0, prepend=0)
    return np.max(np.abs(ds - dt * (s.inflow.values - s.outflow.values)))


rng = np.random.default_rng(5)
bad = 0
for kind in ["InflowDrivenDSM", "StockDrivenDSM:manual", "StockDrivenDSM:lapack"]:
    lm = NormalLifetime(dims=dims, mean=3.0, std=1.0)
    if kind == "InflowDrivenDSM":
        s = InflowDrivenDSM(dims=dims, lifetime_model=lm)
        s.inflow.values[...] = rng.uniform(10, 20, dims.shape)
    else:
        s = StockDrivenDSM(dims=dims, lifetime_model=lm, solver=kind.split(":")[1])
        s.stock.values[...] = np.cumsum(rng.uniform(10, 20, dims.shape), axis=0)
    s.compute()
    r1 = residual(s)
    sf_max_1 = lm.sf.max()
    lm.compute_survival_factor()  # documented: "does nothing if the sf already exists"
    sf_max_2 = lm.sf.max()
    s.compute()
    r2 = residual(s)
    try:
        s.check_stock_balance()
        v = "accepted"
    except RuntimeError as e:
        v = "rejected: " + str(e)
    print(f"{kind:22s}: residual after 1st compute {r1:.1e}; max sf {sf_max_1:.3f} -> {sf_max_2:.3f} "
          f"after compute_survival_factor(); residual after 2nd compute {r2:.3e}; check_stock_balance {v}")
    if not (r2 < 1e-9) or v != "accepted":
        bad += 1

print()
print("statement demands : after compute() the stock change equals dt * (inflow - outflow), residual ~1e-15")
if bad:
    print(f"observed          : {bad} stocks computed after compute_survival_factor() violate the balance")
    sys.exit(1)
print("observed          : all balanced")
sys.exit(0)
