"""C01 / finding 1: reflected subtraction `number - x` is computed as `(-x) + number`.

Statement: "A plain number behaves as an array of x's own dimensions filled with that
number, also in reflected position (2-x, 2/x)".

So `c - x` must equal `FlodymArray.full(x.dims, c) - x` entry by entry. The library negates x
in x's own dtype first, which
  * raises for boolean arrays (masks), although `full(1.0) - mask` is perfectly fine,
  * wraps around for unsigned arrays (2 - 1 -> 257 for uint8, 1.8e19 for uint64),
  * flips the sign for the smallest signed integer (0 - (-2**63) -> -9.2e18).
"""
import sys
import numpy as np
import flodym
from flodym import Dimension, DimensionSet, FlodymArray

print("flodym from", flodym.__file__)

dims = DimensionSet(
    dim_list=[
        Dimension(name="Region", letter="r", items=["EU", "US", "CN"]),
        Dimension(name="Time", letter="t", items=[2000, 2010]),
    ]
)

bad = 0


def check(tag, x, c):
    global bad
    expected = (FlodymArray.full(x.dims, float(c)) - x).values  # number as a filled array
    ref = float(c) - np.asarray(x.values).astype(float)  # plain entry-wise arithmetic
    assert np.array_equal(expected, ref)
    try:
        got = (c - x).values
    except Exception as e:
        print(f"[{tag}] {c} - x raised {type(e).__name__}: {e}")
        print(f"    statement demands {ref.tolist()}")
        bad += 1
        return
    ok = np.array_equal(got, ref)
    print(f"[{tag}] {c} - x = {np.asarray(got).tolist()}\n    statement demands {ref.tolist()}  -> {'ok' if ok else 'WRONG'}")
    if not ok:
        bad += 1


# 1) a boolean mask, e.g. produced by x.apply(lambda v: v > 0); complement as 1 - mask
stock = FlodymArray(dims=dims, values=np.array([[1.0, 0.0], [0.0, 2.0], [3.0, 0.0]]))
mask = stock.apply(lambda v: v > 0)
print("mask dtype:", mask.values.dtype, "| mask - 1 works:", (mask - 1).values.tolist())
check("bool mask", mask, 1)

# 2) unsigned counts
counts8 = FlodymArray(dims=dims, values=np.array([[1, 2], [3, 0], [5, 6]], dtype=np.uint8))
check("uint8", counts8, 2)
counts64 = FlodymArray(dims=dims, values=np.array([[1, 2], [3, 0], [5, 6]], dtype=np.uint64))
check("uint64", counts64, 2)

# 3) smallest signed integer (default integer type, nothing "tiny")
imin = np.iinfo(np.int64).min
xi = FlodymArray(dims=dims, values=np.array([[imin, 1], [2, 3], [4, 5]], dtype=np.int64))
check("int64 min", xi, 0)

# control: ordinary float array is fine
check("float control", stock, 2)

print("violations:", bad)
sys.exit(1 if bad else 0)
