"""C01 / finding 2: x / y does not return the quotient of the entries, but x * (1 / y).

Statement: "x*y and x/y return an array over the union of the dimensions ... whose entry at
every label combination is the product or quotient of the two entries carrying those labels",
and "(2/x)" for a plain number in reflected position.

The library forms the reciprocal 1.0 / y first and multiplies. Hence
  * ordinary values come out wrong in the last digit: 49/49 -> 0.9999999999999999, so x / x is
    not 1 and shares computed as part / total do not reach 1 for a single part,
  * for tiny (subnormal) divisors the reciprocal overflows: 1e-310 / 1e-310 -> inf instead of 1.0
    and 0 / 1e-310 -> nan instead of 0.0,
  * the same for number / x, computed as (1 / x) * number.
"""
import sys
import warnings
import numpy as np
import flodym
from flodym import Dimension, DimensionSet, FlodymArray

warnings.simplefilter("ignore")
print("flodym from", flodym.__file__)

dims = DimensionSet(
    dim_list=[
        Dimension(name="Region", letter="r", items=["EU", "US", "CN", "IN"]),
        Dimension(name="Good", letter="g", items=["car", "bus"]),
    ]
)
bad = 0


def check(tag, got, expected):
    global bad
    ok = np.array_equal(np.asarray(got.values), expected, equal_nan=True)
    print(f"[{tag}]\n    library  : {np.asarray(got.values).tolist()}\n    quotients: {expected.tolist()}  -> {'ok' if ok else 'WRONG'}")
    if not ok:
        bad += 1


# 1) ordinary numbers
xv = np.array([[49.0, 98.0], [103.0, 107.0], [161.0, 187.0], [5.0, 6.0]])
x = FlodymArray(dims=dims, values=xv)
check("x / x (same dims), ordinary values", x / x, xv / xv)

# 2) divisor over a sub-set of the dimensions, label by label
yv = np.array([49.0, 98.0, 103.0, 107.0])
y = FlodymArray(dims=dims[("r",)], values=yv)
check("x / y, y over (r,)", x / y, xv / yv[:, None])

# 3) tiny divisors
tv = np.array([[1e-310, 0.0], [3e-310, 1.0], [1e-310, 1e-320], [2.0, 4.0]])
dv = np.array([[1e-310, 1e-310], [1e-310, 4.0], [2e-310, 1e-320], [4.0, 8.0]])
check("tiny divisors", FlodymArray(dims=dims, values=tv) / FlodymArray(dims=dims, values=dv), tv / dv)

# 4) number in reflected position
check("49 / x", 49 / x, 49.0 / xv)
check("x / 49", x / 49, xv / 49.0)

print("violations:", bad)
sys.exit(1 if bad else 0)
