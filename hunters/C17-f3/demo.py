"""C17 / finding 3: the cached survival/outflow tables ignore a change of the lifetime model's
inflow_at / n_pts_per_interval. In a system whose stocks are built from definitions these two
documented lifetime parameters can ONLY be set by attribute assignment, so a sensitivity loop over
them returns the result of the first computation for every setting.

Run: cd /repo && PYTHONPATH=/repo /venv/bin/python /tmp/mut7/out/C17/f3/demo.py
"""
import sys
import numpy as np
import flodym
from flodym import (
    Dimension,
    DimensionSet,
    MFASystem,
    MFADefinition,
    DimensionDefinition,
    FlowDefinition,
    StockDefinition,
    ParameterDefinition,
    Parameter,
    InflowDrivenDSM,
    make_processes,
    make_empty_flows,
    make_empty_stocks,
)
from flodym.lifetime_models import WeibullLifetime

print("flodym from", flodym.__file__)

t = Dimension(name="time", letter="t", items=list(range(2000, 2012)))
r = Dimension(name="region", letter="r", items=["north", "south"])
dims = DimensionSet(dim_list=[t, r])
inflow_values = np.random.default_rng(2).uniform(5.0, 10.0, dims.shape)


class MyMFA(MFASystem):
    def compute(self):
        use = self.stocks["use"]
        self.flows["sysenv => use"][...] = self.parameters["inflow"]
        use.inflow[...] = self.flows["sysenv => use"]
        use.compute()
        self.flows["use => sysenv"][...] = use.outflow


def build():
    processes = make_processes(["sysenv", "use"])
    flows = make_empty_flows(
        processes=processes,
        flow_definitions=[
            FlowDefinition(from_process="sysenv", to_process="use", dim_letters=("t", "r")),
            FlowDefinition(from_process="use", to_process="sysenv", dim_letters=("t", "r")),
        ],
        dims=dims,
    )
    stocks = make_empty_stocks(
        stock_definitions=[
            StockDefinition(
                name="use",
                process="use",
                dim_letters=("t", "r"),
                subclass=InflowDrivenDSM,
                lifetime_model_class=WeibullLifetime,
            )
        ],
        processes=processes,
        dims=dims,
    )
    parameters = {"inflow": Parameter(dims=dims, values=inflow_values.copy(), name="inflow")}
    mfa = MyMFA(dims=dims, processes=processes, flows=flows, stocks=stocks, parameters=parameters)
    # the lifetime itself is not varied in this study, so it is set once when the model is set up
    mfa.stocks["use"].lifetime_model.set_prms(weibull_shape=2.0, weibull_scale=1.5)  # short-lived
    return mfa


def setting(mfa, **kw):
    for k, v in kw.items():
        setattr(mfa.stocks["use"].lifetime_model, k, v)


scenarios = [
    dict(inflow_at="middle", n_pts_per_interval=1),  # the defaults
    dict(inflow_at="start", n_pts_per_interval=1),
    dict(inflow_at="end", n_pts_per_interval=1),
    dict(inflow_at="middle", n_pts_per_interval=5),
]

looped = build()  # ONE system, re-run for every scenario (sensitivity loop)
bad = False
for sc in scenarios:
    try:
        setting(looped, **sc)
    except Exception as e:  # a fix might reject the assignment loudly instead
        print("assignment rejected:", type(e).__name__, e)
        continue
    looped.compute()
    looped.check_mass_balance()

    ref = build()  # freshly built system with the same inputs
    setting(ref, **sc)
    ref.compute()

    got = looped.stocks["use"].stock.values
    want = ref.stocks["use"].stock.values
    got_o = looped.flows["use => sysenv"].values
    want_o = ref.flows["use => sysenv"].values
    print(
        f"{sc}: held by looped model = "
        f"({looped.stocks['use'].lifetime_model.inflow_at}, {looped.stocks['use'].lifetime_model.n_pts_per_interval});"
        f" total stock looped {got.sum():.4f} vs fresh {want.sum():.4f};"
        f" max diff stock {np.abs(got - want).max():.4g}, outflow {np.abs(got_o - want_o).max():.4g}"
    )
    if not (np.allclose(got, want, rtol=1e-12, atol=1e-12) and np.allclose(got_o, want_o, rtol=1e-12, atol=1e-12)):
        bad = True

print(
    "\nStatement: 'The result of compute() on a stock depends only on the driver arrays and lifetime"
    " parameters it holds at that moment, not on earlier computations ... The same holds for stocks"
    " built from definitions inside a system whose compute() is run repeatedly, as in a scenario or"
    " sensitivity loop.' -> looped and fresh results must agree for every setting."
)
if bad:
    print("VIOLATED: every scenario after the first one re-uses the tables of the first computation.")
    sys.exit(1)
print("ok")
sys.exit(0)
