"""C14: expand_by(..., inplace=True) accepts two added dimensions that share a letter."""
import sys
import flodym
from flodym import Dimension, DimensionSet

print("flodym from", flodym.__file__)
A = Dimension(name="Alpha", letter="a", items=[1, 2])
B = Dimension(name="Beta", letter="b", items=["x", "y", "z"])
X1 = Dimension(name="Xone", letter="x", items=[1])
X2 = Dimension(name="Xtwo", letter="x", items=[1, 2])

# reference behaviour: the non-inplace variant rejects the clash
try:
    DimensionSet(dim_list=[A, B]).expand_by([X1, X2])
    print("non-inplace expand_by: accepted (unexpected)")
except ValueError as e:
    print("non-inplace expand_by: rejected with ValueError (as promised)")

d = DimensionSet(dim_list=[A, B])
bad = False
try:
    d.expand_by([X1, X2], inplace=True)
    print("inplace expand_by([X1, X2]) with X1.letter == X2.letter == 'x': silently accepted")
except ValueError:
    print("inplace expand_by: rejected with ValueError")
print("letters afterwards:", d.letters, "shape:", d.shape)
if len(set(d.letters)) != len(d.letters):
    bad = True
    print("VIOLATION: letters are no longer unique; lookup d['x'] ->", d["x"].name,
          "while position 2 holds", d[2].name, "; shape reports", d.shape,
          "but real item counts are", tuple(len(x.items) for x in d))
print("Statement demands: letters stay unique under every mutator (... expand ...), which reject a clash;")
print("the receiver must be left as ('a', 'b') and a ValueError raised.")
sys.exit(1 if bad else 0)
