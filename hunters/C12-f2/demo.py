"""C12 / f2: allow_extra_values does not ignore rows whose unknown label cannot be converted
to the dtype of the dimension (e.g. a 'total' row or a blank cell in an int-typed Time column).

Run:  cd /repo && PYTHONPATH=/repo /venv/bin/python /tmp/mut7/out/C12/f2/demo.py
"""
import os
import sys
import logging
import tempfile
import numpy as np
import pandas as pd
import flodym
from flodym import Dimension, DimensionSet, FlodymArray
from flodym.data_reader import CSVParameterReader

logging.disable(logging.CRITICAL)
print("flodym from:", flodym.__file__)

# dimensions typed exactly as the how-tos / DimensionDefinition do it
time = Dimension(name="Time", letter="t", items=[2000, 2001], dtype=int)
region = Dimension(name="Region", letter="r", items=["A", "B"], dtype=str)
dims = DimensionSet(dim_list=[time, region])
expected = np.array([[1.0, 2.0], [3.0, 4.0]])

known = [(2000, "A", 1.0), (2000, "B", 2.0), (2001, "A", 3.0), (2001, "B", 4.0)]
bad = False


def check(label, func):
    global bad
    try:
        values = func()
    except Exception as e:  # noqa
        print(f"{label}: RAISED {type(e).__name__}: {str(e)[:160]}")
        bad = True
        return
    ok = np.array_equal(values, expected)
    print(f"{label}: returned {values.tolist()} -> {'ok' if ok else 'WRONG'}")
    if not ok:
        bad = True


# control: an unknown label that *can* be converted to int is ignored as promised
df_ctrl = pd.DataFrame(known + [(1999, "A", 9.0), (2000, "C", 9.0)], columns=["Time", "Region", "value"])
check("control (extra year 1999, extra region 'C')",
      lambda: FlodymArray.from_df(dims=dims, df=df_ctrl, allow_extra_values=True).values)

# 1) unknown item 'total' in the Time column (dimension identified by name)
df1 = pd.DataFrame(known + [("total", "A", 4.0), ("total", "B", 6.0)], columns=["Time", "Region", "value"])
check("from_df, unknown Time item 'total'",
      lambda: FlodymArray.from_df(dims=dims, df=df1, allow_extra_values=True).values)

# 2) same with the dimension identified by letter, and set_values_from_df
df2 = df1.rename(columns={"Time": "t", "Region": "r"})
def via_set():
    arr = FlodymArray(dims=dims)
    arr.set_values_from_df(df2, allow_extra_values=True)
    return arr.values
check("set_values_from_df, letters, unknown Time item 'total'", via_set)

# 3) CSV reader: a row with a blank Time cell and a 'sum' row
tmp = tempfile.mkdtemp()
path = os.path.join(tmp, "param.csv")
with open(path, "w") as f:
    f.write("Time,Region,value\n2000,A,1\n2000,B,2\n2001,A,3\n2001,B,4\n,A,9\n")
check("CSVParameterReader, row with blank Time cell",
      lambda: CSVParameterReader({"p": path}, allow_extra_values=True).read_parameter_values("p", dims).values)
with open(path, "w") as f:
    f.write("Time,Region,value\n2000,A,1\n2000,B,2\n2001,A,3\n2001,B,4\nsum,A,4\nsum,B,6\n")
check("CSVParameterReader, 'sum' rows",
      lambda: CSVParameterReader({"p": path}, allow_extra_values=True).read_parameter_values("p", dims).values)

print()
print("Statement demands: with allow_extra_values rows carrying unknown items (in dimensions identified "
      "by name or letter) are ignored and nothing else changes -> result [[1, 2], [3, 4]] in every case.")
if bad:
    print("OBSERVED: an error is raised as soon as the unknown item is not convertible to the "
          "dimension's dtype -> BUG PRESENT")
    sys.exit(1)
print("OK")
sys.exit(0)
