"""C17 / finding 2: compute() writes its results IN PLACE into whatever arrays an earlier phase left
behind, so the dtype of an earlier DRIVER (now an output) decides the result. Integer historic data
(a very common input) + to_stock_type() + compute() silently truncates all results to whole numbers.

Run: cd /repo && PYTHONPATH=/repo /venv/bin/python /tmp/mut7/out/C17/f2/demo.py
"""
import sys
import numpy as np
import flodym
from flodym import Dimension, DimensionSet, InflowDrivenDSM, StockDrivenDSM
from flodym.lifetime_models import NormalLifetime

print("flodym from", flodym.__file__)

t = Dimension(name="time", letter="t", items=list(range(2000, 2010)))
r = Dimension(name="region", letter="r", items=["north", "south"])
dims = DimensionSet(dim_list=[t, r])
bad = False


def lifetime():
    return NormalLifetime(dims=dims, mean=4.0, std=1.5)


# ---------------------------------------------------------------------------------------------
# A) historic phase stock-driven (stock statistics are whole numbers), then inflow-driven scenario
# ---------------------------------------------------------------------------------------------
historic_stock = np.array([[10 + 3 * i, 20 + 5 * i] for i in range(10)])  # integers
hist = StockDrivenDSM(dims=dims, lifetime_model=lifetime())
hist.stock[...] = historic_stock  # documented way to set values from a numpy array
hist.compute()
scenario_inflow = hist.inflow.values * 1.1  # scenario: 10 % more inflow (floats)

scen = hist.to_stock_type(InflowDrivenDSM)
scen.inflow.values[...] = scenario_inflow
scen.compute()
scen.compute()

ref = InflowDrivenDSM(dims=dims, lifetime_model=lifetime())  # freshly built, same inputs
ref.inflow.values[...] = scenario_inflow
ref.compute()
print("A) inflow-driven recomputation after a stock-driven phase with integer stock data")
print("   inflow identical:", np.array_equal(scen.inflow.values, ref.inflow.values))
print("   stock  recomputed[:3]:", scen.stock.values[:3].tolist())
print("   stock  fresh     [:3]:", np.round(ref.stock.values[:3], 4).tolist())
d = np.abs(scen.stock.values - ref.stock.values).max()
print(f"   max |recomputed - fresh| = {d:.4g}; stock balance error recomputed = "
      f"{np.abs(scen.get_stock_balance()).max():.4g}, fresh = {np.abs(ref.get_stock_balance()).max():.2g}")
if not np.allclose(scen.stock.values, ref.stock.values, rtol=1e-12, atol=1e-12):
    bad = True

# ---------------------------------------------------------------------------------------------
# B) historic phase inflow-driven (sales statistics are whole numbers), then stock-driven scenario
# ---------------------------------------------------------------------------------------------
historic_inflow = np.array([[5 + i, 9 + 2 * i] for i in range(10)])  # integers
hist = InflowDrivenDSM(dims=dims, lifetime_model=lifetime())
hist.inflow[...] = historic_inflow
hist.compute()
target_stock = hist.stock.values * 1.1  # scenario: 10 % larger stock (floats)

for solver in ("manual", "lapack"):
    scen = hist.to_stock_type(StockDrivenDSM, solver=solver)
    scen.stock.values[...] = target_stock
    scen.compute()

    ref = StockDrivenDSM(dims=dims, lifetime_model=lifetime(), solver=solver)
    ref.stock.values[...] = target_stock
    ref.compute()
    print(f"B) stock-driven ({solver}) recomputation after an inflow-driven phase with integer inflow data")
    print("   stock identical:", np.array_equal(scen.stock.values, ref.stock.values))
    print("   inflow recomputed[:3]:", scen.inflow.values[:3].tolist())
    print("   inflow fresh     [:3]:", np.round(ref.inflow.values[:3], 4).tolist())
    di = np.abs(scen.inflow.values - ref.inflow.values).max()
    do = np.abs(scen.outflow.values - ref.outflow.values).max()
    print(f"   max |recomputed - fresh|: inflow {di:.4g}, outflow {do:.4g}; stock balance error recomputed = "
          f"{np.abs(scen.get_stock_balance()).max():.4g}, fresh = {np.abs(ref.get_stock_balance()).max():.2g}")
    if not (np.allclose(scen.inflow.values, ref.inflow.values, rtol=1e-12, atol=1e-12)
            and np.allclose(scen.outflow.values, ref.outflow.values, rtol=1e-12, atol=1e-12)):
        bad = True

print(
    "\nStatement: 'The result of compute() on a stock depends only on the driver arrays and lifetime"
    " parameters it holds at that moment, not on earlier computations: after changing ... the driver"
    " values ... and calling compute() again, all results equal those of a freshly built stock with"
    " the same inputs'."
)
if bad:
    print("VIOLATED: same drivers, same lifetime, but results truncated to whole numbers because of"
          " what the result arrays held before.")
    sys.exit(1)
print("ok")
sys.exit(0)
