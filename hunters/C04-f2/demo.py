"""C04 / finding 2: a long-format DataFrame in which one index column carries no dimension name
(so that it is inferred from its items, as documented) is imported or rejected depending on the
storage order of the target array's dimensions, when two dimensions have the same item set."""
import sys
import logging
import numpy as np
import flodym
from flodym import Dimension, DimensionSet, FlodymArray

logging.disable(logging.CRITICAL)
print("flodym imported from", flodym.__file__)

regions = ["EUR", "USA", "CHN"]
origin = Dimension(name="Origin", letter="o", items=regions)
destination = Dimension(name="Destination", letter="d", items=regions)
base = FlodymArray(
    dims=DimensionSet(dim_list=[origin, destination]), values=np.arange(9.0).reshape(3, 3) + 1.0
)

# long format; 'Origin' is given by name, the other index column has a foreign header ('to'), so its
# dimension has to be inferred from the items - only 'Destination' is left, so this is unambiguous.
df = base.to_df(index=False).rename(columns={"Destination": "to"})
print(df.head(4).to_string(), "\n...")

outcomes = {}
for order in ("od", "do"):
    dims = base.dims.get_subset(tuple(order))
    expected = base.cast_to(dims)
    try:
        got = FlodymArray.from_df(dims=dims, df=df)
        outcomes[order] = "ok" if np.array_equal(got.values, expected.values) else "WRONG VALUES"
    except Exception as e:  # noqa
        outcomes[order] = f"{type(e).__name__}: {str(e)[:140]}..."
    print(f"target stores its dimensions as {order}: {outcomes[order]}")

print()
print("Statement demands: importing the same data frame must give the same entries under the same")
print("labels whichever way the pre-declared target stores its dimensions.")
if len(set(outcomes.values())) > 1 or any(v != "ok" for v in outcomes.values()):
    print("OBSERVED: the outcome depends on the storage order of the target. BUG PRESENT")
    sys.exit(1)
print("Both storage orders import the frame correctly. OK")
sys.exit(0)
