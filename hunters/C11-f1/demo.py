"""C11 / f1: from_df scrambles a dimension with more than 32768 items (int16 index wrap-around)."""
import sys
import logging
import numpy as np
import flodym
from flodym import Dimension, DimensionSet, FlodymArray

logging.disable(logging.CRITICAL)
print("flodym from", flodym.__file__)

n = 40000
prod = Dimension(name="Product", letter="p", items=[f"p{i}" for i in range(n)])
reg = Dimension(name="Region", letter="r", items=["a", "b"])
dims = DimensionSet(dim_list=[prod, reg])
a = FlodymArray(dims=dims, values=np.arange(1.0, 2 * n + 1).reshape(n, 2))

bad_layouts = []
for kwargs in (dict(index=True), dict(index=False), dict(index=False, dim_to_columns="Region")):
    df = a.to_df(**kwargs)
    b = FlodymArray.from_df(dims, df)
    n_bad = int((a.values != b.values).sum())
    print(f"to_df({kwargs}) -> from_df: {n_bad} of {a.values.size} entries differ")
    if n_bad:
        bad_layouts.append(kwargs)
        i, j = np.argwhere(a.values != b.values)[0]
        lab = (prod.items[i], reg.items[j])
        print(f"   e.g. entry {lab}: original {a.values[i, j]}, after round trip {b.values[i, j]}")
        print(f"   entry ('p32768','a'): original {a.values[32768, 0]}, after round trip {b.values[32768, 0]}")

print()
print("Statement demands: exporting with to_df in any layout and importing the result with from_df")
print("returns the identical array; every entry set comes from the unique row carrying its labels.")
if bad_layouts:
    print("OBSERVED: VIOLATION - values of items with position >= 32768 are written to other items / left 0.")
    sys.exit(1)
print("OBSERVED: ok")
sys.exit(0)
