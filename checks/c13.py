"""C13 - arrays always have the shape of their dimensions; failed calls change nothing.

E2: breadth-first search over histories of public constructors, operators, slicings, assignments,
conversions, imports and deliberately ill-formed calls on three live array registers.  After EVERY
transition, on EVERY register: values is an ndarray, values.shape == dims.shape, letters pairwise
distinct; if the transition raised, every register and every ndarray / DataFrame handed in is
bit-identical to its snapshot; ill-formed calls (wrong shapes, missing dimensions, unknown items)
must raise.  E1 table: every stock class built with every arrangement of its dims and with arrays /
lifetime models over every other arrangement (equal lengths) - refused unless letters agree in
order and time is first; lifetime-model parameters with a foreign dimension - refused.
"""

import itertools

import numpy as np
import pandas as pd

from mc import bfs, spaces as S
from mc.util import attempt, digest

PROPERTY = "C13"
LEVEL = "model_checking"
ENGINE = "E2-bfs"
TECHNIQUE = "explicit-state BFS over histories of public array operations incl. ill-formed calls, shape invariant and failure atomicity evaluated in every state; exhaustive validator table"
RULE = (
    "BFS over histories on three array registers (dims (a,b,c) with lengths 2,3,2; (c,a); (b)) with an alphabet of "
    "~120 operations: constructors with right / transposed / size-1 / missing-axis / extra-axis / flat / scalar "
    "values, full, full_like, scalar, from_dims_superset; every binary operator between register pairs, pow, "
    "unary operators; reads and writes with valid and invalid keys; whole-array and keyed assignment of numbers, "
    "arrays (with surplus / missing dims) and ndarrays of right and wrong shapes; set_values with right / wrong "
    "shapes / a FlodymArray / a number; sum_to, sum_over, cast_to valid and invalid; cumsum / abs / sign in place "
    "and not; to_df -> from_df and set_values_from_df with clean and faulty frames (NaN cell, missing row, "
    "unknown item, duplicate); stock compute() calls that fail for one label (singular survival table, NaN, missing parameters) must leave stock / inflow / outflow untouched. Invariant on every register after every transition; failed transitions must "
    "change nothing. State key = per register (dims signature, dtype, value bytes): exact. E1: validator table "
    "over all arrangements of {t,p,q} (3 items each). Non-trivial = transition that changes a register or raises."
    " Also: namesake dimensions (same name, other letter / length) for stocks and inside one set, the scalar constructor, a failing flow-driven compute."
)
ASSUMPTIONS = [
    "depth bound 2 (quick) / 3 (thorough); three registers; <= 3 dimensions with <= 3 items",
    "'dimensions differ' for stocks and lifetime models is decided on letters and their order (howto 03: one letter denotes one dimension)",
    "overwriting values / dims attributes directly, in-place edits of an array's own dims and shape-changing functions passed to apply are outside the contract and not explored",
]
LEVEL_TEXT = (
    "All histories up to the depth bound over the operation alphabet are executed on real arrays; the shape "
    "invariant is re-evaluated on every register after every step, and every raising step is checked to have left "
    "all registers and all inputs bit-identical. The stock / lifetime-model validators are enumerated completely "
    "over equal-length dimension arrangements."
)
LEVEL_NOTE = "Exact state key. Only deliberately ill-formed calls are required to raise; other calls may succeed or raise, the invariant must hold either way."

ITEMS = dict(S.items_for("2323"))
ALL = "abc"


def DS(letters):
    return S.make_dimset(tuple(letters), ITEMS)


def shape_of(letters):
    return tuple(len(ITEMS[l]) for l in letters)


def fresh_vals(letters, k=0):
    sh = shape_of(letters)
    return (np.arange(int(np.prod(sh)) if sh else 1, dtype=float).reshape(sh) + 1.0 + 10 * k)


class St:
    pass


def build_state():
    from flodym import FlodymArray

    st = St()
    st.r = [FlodymArray(dims=DS("abc"), values=fresh_vals("abc")), FlodymArray(dims=DS("ca"), values=fresh_vals("ca", 1)), FlodymArray(dims=DS("b"), values=fresh_vals("b", 2))]
    return st


def snap(st):
    return [([(d.letter, d.name, tuple(d.items)) for d in r.dims], None if not isinstance(r.values, np.ndarray) else (r.values.shape, str(r.values.dtype), r.values.tobytes())) for r in st.r]


def bad_shapes(letters):
    sh = shape_of(letters)
    out = set()
    for perm in itertools.permutations(range(len(sh))):
        p = tuple(sh[i] for i in perm)
        if p != sh:
            out.add(p)
    for k in range(len(sh)):
        out.add(sh[:k] + (1,) + sh[k + 1 :])
        out.add(sh[:k] + sh[k + 1 :])
    out.add(sh + (1,))
    out.add((1,) + sh)
    out.add((int(np.prod(sh)),))
    out.add(())
    out.discard(sh)
    return sorted(out)


def make_ops():
    ops = []
    A = ops.append
    # --- constructors into r2
    for letters in ("abc", "ca", "b", ""):
        A(dict(op="ctor", dims=letters, vals="right"))
        A(dict(op="ctor", dims=letters, vals="none"))
    for sh in bad_shapes("abc"):
        A(dict(op="ctor", dims="abc", vals="shape", shape=list(sh), ill=True))
    for sh in bad_shapes("ca"):
        A(dict(op="ctor", dims="ca", vals="shape", shape=list(sh), ill=True))
    A(dict(op="ctor", dims="abc", vals="number", ill=True))
    A(dict(op="ctor", dims="", vals="number"))
    A(dict(op="ctor", dims="b", vals="list", ill=True))
    A(dict(op="ctor-dup-letters", ill=True))
    for how in ("append", "prepend", "insert", "expand_by", "drop", "replace"):
        for use in ("values-none", "values-right", "full"):
            A(dict(op="ctor-from-edited-set", how=how, use=use))
    A(dict(op="full", dims="cb", fill="number"))
    A(dict(op="full", dims="cb", fill="row"))
    A(dict(op="full", dims="cb", fill="badshape", ill=True))
    A(dict(op="full_like", src=0))
    A(dict(op="full_like", src=1))
    A(dict(op="scalar"))
    A(dict(op="from_superset", letters="bc"))
    A(dict(op="from_superset", letters="bz", ill=True))
    A(dict(op="from_superset", letters="bb", ill=True))
    A(dict(op="ctor-repeated-subset", how="get_subset", ill=True))
    A(dict(op="ctor-repeated-subset", how="getitem", ill=True))
    for tgt in ("abc", "ca", "cab"):
        A(dict(op="cast-mismatched", tgt=tgt, n=1))
        A(dict(op="cast-mismatched", tgt=tgt, n=2))
    A(dict(op="from_superset_vals", letters="cb", shape="wrong", ill=True))
    # --- operators into r2
    for x, y in ((0, 1), (1, 0), (0, 2), (2, 1), (2, 2)):
        for o in ("+", "-", "*", "/", "min", "max"):
            A(dict(op="bin", x=x, y=y, o=o))
    A(dict(op="pow", x=0, y=1))
    A(dict(op="pow", x=1, y=0, ill=True))
    A(dict(op="bin-number", x=0, o="+"))
    A(dict(op="bin-number", x=1, o="r-"))
    A(dict(op="bin-number", x=2, o="r/"))
    for x, o in ((0, "neg"), (1, "abs"), (0, "absm"), (1, "sign"), (0, "copy"), (2, "copy")):
        A(dict(op="un", x=x, o=o))
    # --- reads into r2
    for x, key, ill in ((0, "a1", False), (0, "sub-b", False), (0, "nope", True), (1, "dict-z", True), (0, "ellipsis", False), (0, "two", False), (1, "all-single", False), (0, "slice", True), (0, "nonsubset", True), (0, "list-read", True)):
        A(dict(op="read", x=x, key=key, ill=ill))
    for x, how, arg, ill in ((0, "sum_to", "ca", False), (0, "sum_to", "z", True), (0, "sum_over", "b", False), (0, "sum_over", "Zeta", True), (1, "cast_to", "abc", False), (1, "cast_to", "bca", False), (0, "cast_to", "ca", True), (0, "sum_to", "", False), (0, "shares", "b", False)):
        A(dict(op="reduce", x=x, how=how, arg=arg, ill=ill))
    A(dict(op="cumsum", x=0, letter="b", inplace=False))
    A(dict(op="cumsum", x=0, letter="b", inplace=True))
    A(dict(op="cumsum", x=0, letter="z", inplace=True, ill=True))
    A(dict(op="inplace", x=1, o="abs"))
    A(dict(op="inplace", x=0, o="sign"))
    # --- assignments
    A(dict(op="set-ellipsis-nd", x=0, shape="right"))
    for sh in bad_shapes("abc"):
        A(dict(op="set-ellipsis-nd", x=0, shape=list(sh), ill=True))
    for sh in bad_shapes("ca"):
        A(dict(op="set-ellipsis-nd", x=1, shape=list(sh), ill=True))
    A(dict(op="set-ellipsis-arr", x=0, y=1, ill=True))  # r1 lacks b (initially); decided at run time
    A(dict(op="set-ellipsis-arr", x=1, y=0))
    A(dict(op="set-ellipsis-arr", x=0, y=2))
    A(dict(op="set-ellipsis-arr", x=2, y=0))
    A(dict(op="set-ellipsis-num", x=0))
    A(dict(op="set-key", x=0, key="a1", rhs="number"))
    A(dict(op="set-key", x=0, key="b-item", rhs="r1"))
    A(dict(op="set-key", x=1, key="c-item", rhs="r0"))
    A(dict(op="set-key", x=0, key="nope", rhs="number", ill=True))
    A(dict(op="set-key", x=0, key="a1", rhs="nd-right"))
    A(dict(op="set-key", x=0, key="a1", rhs="r2"))
    A(dict(op="set-key", x=0, key="sub-b", rhs="number"))
    A(dict(op="set-key", x=0, key="list-b", rhs="number"))
    A(dict(op="set_values", x=0, what="right"))
    A(dict(op="set_values", x=0, what="transposed", ill=True))
    A(dict(op="set_values", x=1, what="flat", ill=True))
    A(dict(op="set_values", x=1, what="size1", ill=True))
    A(dict(op="set_values", x=0, what="flodym", ill=True))
    A(dict(op="set_values", x=0, what="number"))
    A(dict(op="set_values", x=2, what="zerod", ill=True))
    # --- data frames
    A(dict(op="df-roundtrip", x=0))
    A(dict(op="df-roundtrip", x=1))
    for fault in ("clean", "nan-cell", "missing-row", "unknown-item", "duplicate", "missing-column"):
        A(dict(op="set_from_df", x=0, fault=fault, ill=fault != "clean"))
        A(dict(op="from_df", x=1, fault=fault, ill=fault != "clean"))
    return ops


OPS = make_ops()


def frame_for(arr, fault):
    df = arr.to_df(index=False)
    if fault == "nan-cell":
        df.loc[len(df) // 2, "value"] = np.nan
    elif fault == "missing-row":
        df = df.drop(index=1).reset_index(drop=True)
    elif fault == "unknown-item":
        col = df.columns[0]
        df[col] = df[col].astype(object)
        df.loc[0, col] = "nope"
    elif fault == "duplicate":
        df = pd.concat([df, df.iloc[[0]]], ignore_index=True)
    elif fault == "missing-column":
        df = df.drop(columns=[df.columns[0]])
    return df


def apply_op(st, op, check):
    from flodym import Dimension, DimensionSet, FlodymArray

    r = st.r
    before = snap(st)
    handed = []  # (object, copy) pairs of ndarrays / frames handed in
    name = op["op"]
    ill = bool(op.get("ill"))
    dest = None  # register index receiving a produced array

    def nd(shape, k=3):
        a = np.array(np.arange(int(np.prod(shape)) if len(shape) else 1, dtype=float).reshape(shape) + 100.0 * k)
        handed.append((a, a.copy()))
        return a

    def call():
        nonlocal dest
        if name == "ctor":
            letters = op["dims"]
            dest = 2
            if op["vals"] == "right":
                return FlodymArray(dims=DS(letters), values=nd(shape_of(letters)))
            if op["vals"] == "none":
                return FlodymArray(dims=DS(letters))
            if op["vals"] == "shape":
                return FlodymArray(dims=DS(letters), values=nd(tuple(op["shape"])))
            if op["vals"] == "number":
                return FlodymArray(dims=DS(letters), values=5.0)
            return FlodymArray(dims=DS(letters), values=[1.0, 2.0, 3.0])
        if name == "ctor-from-edited-set":
            # a DimensionSet is used once (shape looked up, an array built from it), then edited in place,
            # then used to build another array
            dest = 2
            D0 = DS("ab")
            _ = D0.shape, D0.total_size
            FlodymArray.full(D0, 1.0)
            newd = S.make_dimension("c", ITEMS["c"])
            how = op["how"]
            if how == "append":
                D0.append(newd, inplace=True)
            elif how == "prepend":
                D0.prepend(newd, inplace=True)
            elif how == "insert":
                D0.insert(1, newd, inplace=True)
            elif how == "expand_by":
                D0.expand_by([newd], inplace=True)
            elif how == "drop":
                D0.drop("a", inplace=True)
            else:
                D0.replace("b", newd, inplace=True)
            shape_now = tuple(len(d.items) for d in D0)
            if op["use"] == "values-none":
                return FlodymArray(dims=D0)
            if op["use"] == "values-right":
                return FlodymArray(dims=D0, values=nd(shape_now))
            return FlodymArray.full(D0, 2.5)
        if name == "ctor-repeated-subset":
            dest = 2
            D0 = DS("abc")
            sub = D0.get_subset(("a", "c", "a")) if op["how"] == "get_subset" else D0["b", "a", "b"]
            return FlodymArray(dims=sub)
        if name == "cast-mismatched":
            # the source holds a dimension with the letter of a target dimension but FEWER items (a subset
            # that kept its letter): the cast must raise, or return an array with the shape of its dims
            dest = 2
            n = op["n"]
            from flodym import DimensionSet as _DSet

            src_dims = _DSet(dim_list=[S.make_dimension("c", ITEMS["c"][:n] if n <= len(ITEMS["c"]) else ITEMS["c"]), S.make_dimension("a", ITEMS["a"])])
            if n == 2:  # same count, other items: b has 3 items, take a 2-item b
                src_dims = _DSet(dim_list=[S.make_dimension("b", ITEMS["b"][:2]), S.make_dimension("a", ITEMS["a"])])
            src = FlodymArray(dims=src_dims, values=nd(tuple(src_dims.shape)))
            tgt = op["tgt"] if n == 1 else "ab" + ("c" if "c" in op["tgt"] else "")
            return src.cast_to(DS(tgt))
        if name == "ctor-dup-letters":
            dest = 2
            d1 = S.make_dimension("a", ITEMS["a"])
            d2 = S.make_dimension("a", ("x1", "x2"), name="Again")
            return FlodymArray(dims=DimensionSet(dim_list=[d1, d2]), values=nd((2, 2)))
        if name == "full":
            dest = 2
            fill = {"number": 2, "row": nd((3,)), "badshape": nd((2, 2))}[op["fill"]]
            return FlodymArray.full(DS(op["dims"]), fill)
        if name == "full_like":
            dest = 2
            return FlodymArray.full_like(r[op["src"]], 1.5)
        if name == "scalar":
            dest = 2
            return FlodymArray.scalar(3)
        if name == "from_superset":
            dest = 2
            return FlodymArray.from_dims_superset(DS("abc"), tuple(op["letters"]))
        if name == "from_superset_vals":
            dest = 2
            return FlodymArray.from_dims_superset(DS("abc"), tuple(op["letters"]), values=nd((3, 2)))
        if name == "bin":
            dest = 2
            x, y = r[op["x"]], r[op["y"]]
            o = op["o"]
            return {"+": lambda: x + y, "-": lambda: x - y, "*": lambda: x * y, "/": lambda: x / (y + 1000.0), "min": lambda: x.minimum(y), "max": lambda: x.maximum(y)}[o]()
        if name == "pow":
            dest = 2
            return r[op["x"]] ** (r[op["y"]] * 0.0 + 2.0)
        if name == "bin-number":
            dest = 2
            x = r[op["x"]]
            return {"+": lambda: x + 2, "r-": lambda: 2 - x, "r/": lambda: 2 / (x + 1000.0)}[op["o"]]()
        if name == "un":
            dest = 2
            x = r[op["x"]]
            return {"neg": lambda: -x, "abs": lambda: abs(x), "absm": lambda: x.abs(), "sign": lambda: x.sign(), "copy": lambda: x.copy()}[op["o"]]()
        if name == "read":
            dest = 2
            x = r[op["x"]]
            L = x.dims.letters
            key = op["key"]
            if key == "a1":
                k = x.dims[0].items[0] if L else Ellipsis
            elif key == "sub-b":
                k = {L[-1]: Dimension(name="Subset", letter="w", items=list(reversed(x.dims[-1].items))[:2])} if L else Ellipsis
            elif key == "nope":
                k = "nope"
            elif key == "dict-z":
                k = {"z": 1}
            elif key == "ellipsis":
                k = Ellipsis
            elif key == "two":
                k = {L[0]: x.dims[0].items[-1], L[-1]: x.dims[-1].items[0]} if len(L) >= 2 else Ellipsis
            elif key == "all-single":
                k = {l: x.dims[l].items[0] for l in L}
            elif key == "slice":
                k = slice(0, 1)
            elif key == "nonsubset":
                k = {L[0]: Dimension(name="Subset", letter="w", items=["q1", "q2"])} if L else "nope"
            else:
                k = {L[0]: list(x.dims[0].items)} if L else "nope"
            return x[k]
        if name == "reduce":
            dest = 2
            x = r[op["x"]]
            how, arg = op["how"], op["arg"]
            if how == "sum_to":
                return x.sum_to(tuple(arg) if arg != "z" else ("z",))
            if how == "sum_over":
                return x.sum_over((arg,) if len(arg) > 1 else tuple(arg))
            if how == "cast_to":
                return x.cast_to(DS(arg))
            return (x + 1000.0).get_shares_over(tuple(l for l in arg if l in x.dims.letters))
        if name == "cumsum":
            x = r[op["x"]]
            if op["inplace"]:
                return x.cumsum(op["letter"], inplace=True)
            dest = 2
            return x.cumsum(op["letter"])
        if name == "inplace":
            x = r[op["x"]]
            return x.abs(inplace=True) if op["o"] == "abs" else x.sign(inplace=True)
        if name == "set-ellipsis-nd":
            x = r[op["x"]]
            sh = tuple(x.dims.shape) if op["shape"] == "right" else tuple(op["shape"])
            x[...] = nd(sh)
            return None
        if name == "set-ellipsis-arr":
            r[op["x"]][...] = r[op["y"]]
            return None
        if name == "set-ellipsis-num":
            r[op["x"]][...] = 7.25
            return None
        if name == "set-key":
            x = r[op["x"]]
            L = x.dims.letters
            key = op["key"]
            if not L:
                k = Ellipsis
            elif key == "a1":
                k = x.dims[0].items[0]
            elif key == "b-item":
                k = {L[1 if len(L) > 1 else 0]: x.dims[1 if len(L) > 1 else 0].items[-1]}
            elif key == "c-item":
                k = {L[0]: x.dims[0].items[0]}
            elif key == "nope":
                k = "nope"
            elif key == "sub-b":
                k = {L[-1]: Dimension(name="Subset", letter="w", items=list(x.dims[-1].items)[:1])}
            else:
                k = {L[-1]: list(reversed(x.dims[-1].items))}
            rhs = op["rhs"]
            if rhs == "number":
                v = -1.5
            elif rhs == "nd-right":
                v = nd(tuple(x.dims.shape[1:]))
            else:
                v = r[int(rhs[1])]
            x[k] = v
            return None
        if name == "set_values":
            x = r[op["x"]]
            sh = tuple(x.dims.shape)
            w = op["what"]
            if w == "right":
                v = nd(sh)
            elif w == "transposed":
                v = nd(tuple(reversed(sh)) if tuple(reversed(sh)) != sh else sh + (1,))
            elif w == "flat":
                v = nd((int(np.prod(sh)),) if len(sh) != 1 else sh + (1,))
            elif w == "size1":
                v = nd((1,) + sh[1:] if sh and sh[0] != 1 else sh + (1,))
            elif w == "flodym":
                v = r[(op["x"] + 1) % 3]
            elif w == "zerod":
                v = nd(()) if sh != () else nd((1,))
            else:
                v = 4.0
            x.set_values(v)
            return None
        if name == "df-roundtrip":
            dest = 2
            x = r[op["x"]]
            if x.dims.ndim == 0:
                return x.copy()
            df = x.to_df()
            handed.append((df, df.copy()))
            return FlodymArray.from_df(dims=x.dims, df=df)
        if name == "set_from_df":
            x = r[op["x"]]
            if x.dims.ndim == 0:
                raise ValueError("0-dim (skipped)")
            df = frame_for(x, op["fault"])
            handed.append((df, df.copy()))
            x.set_values_from_df(df)
            return None
        if name == "from_df":
            dest = 2
            x = r[op["x"]]
            if x.dims.ndim == 0:
                raise ValueError("0-dim (skipped)")
            df = frame_for(x, op["fault"])
            handed.append((df, df.copy()))
            return FlodymArray.from_df(dims=x.dims, df=df)
        raise ValueError(name)

    status, got = attempt(call)

    def fail(kind, what):
        return "fail", dict(case={}, tags=dict(kind=kind, op=name), what=f"{op}: {what}")

    # run-time decision for assignments between registers: rhs lacking a dimension of the target must raise
    must = ill
    if name == "set-ellipsis-arr":
        xl, yl = before[op["x"]][0], before[op["y"]][0]
        must = any(l not in [d[0] for d in yl] for l in [d[0] for d in xl])
    if name in ("set_values",) and op["what"] in ("transposed", "flat", "size1", "zerod"):
        must = True
    if name == "read" and op["key"] in ("list-read", "nonsubset", "sub-b", "a1", "two") and not before[op["x"]][0]:
        must = op["key"] in ("list-read", "nonsubset")
    if name == "set-key" and op["key"] == "nope" and not before[op["x"]][0]:
        must = False
    if name == "reduce" and op["how"] == "cast_to":
        src = [d[0] for d in before[op["x"]][0]]
        must = any(l not in op["arg"] for l in src)
    if name == "reduce" and op["how"] in ("sum_to", "sum_over") and not ill:
        src = [d[0] for d in before[op["x"]][0]]
        must = None if any(l not in src for l in op["arg"]) else False
    if name == "cumsum" and not ill:
        must = None if op["letter"] not in [d[0] for d in before[op["x"]][0]] else False
    if name in ("set_from_df", "from_df") and not before[op["x"]][0]:
        must = None
    if name == "set-ellipsis-nd" and op["shape"] != "right":
        must = tuple(op["shape"]) != tuple(len(d[2]) for d in before[op["x"]][0])
    if name == "pow":
        xl = [d[0] for d in before[op["x"]][0]]
        yl = [d[0] for d in before[op["y"]][0]]
        must = any(l not in xl for l in yl)
    if status == "ok" and must:
        return fail("must-raise", "ill-formed call was accepted")
    if status == "ok" and dest is not None and got is not None:
        st.r[dest] = got
    if check:
        for i, a in enumerate(st.r):
            v = a.values
            if not isinstance(v, np.ndarray):
                return fail("invariant", f"register r{i}: values is {type(v).__name__}")
            if tuple(v.shape) != tuple(a.dims.shape) or tuple(a.dims.shape) != tuple(len(d.items) for d in a.dims):
                return fail("invariant", f"register r{i}: values.shape {tuple(v.shape)} != dims shape {tuple(len(d.items) for d in a.dims)} (letters {a.dims.letters})")
            if len(set(a.dims.letters)) != len(a.dims.letters):
                return fail("invariant", f"register r{i}: repeated letters {a.dims.letters}")
        if status == "raised":
            if snap(st) != before:
                changed = [i for i, (x, y) in enumerate(zip(snap(st), before)) if x != y]
                return fail("changed-on-error", f"the call raised ({got}) but changed register(s) {changed}")
        for obj, cp in handed:
            same = obj.equals(cp) if isinstance(obj, pd.DataFrame) else (obj.shape == cp.shape and np.array_equal(obj, cp, equal_nan=True))
            if not same and isinstance(obj, pd.DataFrame):
                same = list(obj.columns) == list(cp.columns) and obj.equals(cp)
            if not same:
                return fail("input-changed", f"an ndarray / DataFrame handed to the call was modified (call {status})")
    return ("raised" if status == "raised" else "ok"), None


def canon(st):
    return digest(*[repr(x) for x in snap(st)])


# ---- validators (E1) ------------------------------------------------------------------------------

VITEMS = {"t": (2000, 2001, 2002), "p": ("p1", "p2", "p3"), "q": ("q1", "q2", "q3")}
VNAMES = {"t": "Time", "p": "Product", "q": "Quality"}


# namesakes: a DIFFERENT dimension (other letter, other items) that carries the same name
VTWIN = {"T": ("Time", "u", (2000, 2001, 2002)), "P": ("Product", "x", ("x1", "x2", "x3")), "Q": ("Quality", "y", ("y1", "y2", "y3"))}


def VDS(letters):
    from flodym import Dimension, DimensionSet

    dl = []
    for l in letters:
        if l in VTWIN:
            dl.append(Dimension(name=VTWIN[l][0], letter=VTWIN[l][1], items=list(VTWIN[l][2])))
        else:
            dl.append(Dimension(name=VNAMES[l], letter=l, items=list(VITEMS[l])))
    return DimensionSet(dim_list=dl)


def run_validator_case(cls_name, own, role, other):
    import flodym

    case = dict(kind="validator", cls=cls_name, own=own, role=role, other=other)

    def fail(what):
        return "fail", dict(case=case, tags=dict(kind="validator", role=role), what=f"{cls_name}(dims={own!r}) with {role} over {other!r}: {what}")

    cls = getattr(flodym, cls_name)
    kw = dict(dims=VDS(own))
    needs_lm = cls_name != "SimpleFlowDrivenStock"
    ok_own = len(own) > 0 and own[0] == "t"
    if role == "none":
        if needs_lm:
            kw["lifetime_model"] = flodym.NormalLifetime
        accept = ok_own
    elif role in ("stock", "inflow", "outflow"):
        kw[role] = flodym.StockArray(dims=VDS(other))
        if needs_lm:
            kw["lifetime_model"] = flodym.NormalLifetime
        accept = ok_own and tuple(other) == tuple(own)
    elif role == "lifetime_model":
        if not needs_lm:
            return "n/a", None
        st, lm = attempt(lambda: flodym.NormalLifetime(dims=VDS(other)))
        if st == "raised":
            return "n/a", None  # a lifetime model without a time dimension cannot even be built
        kw["lifetime_model"] = lm
        accept = ok_own and tuple(other) == tuple(own)
    elif role == "lm-parameter":
        # lifetime model over `own` handed a parameter array over `other`
        if not ok_own:
            return "n/a", None
        prm = flodym.FlodymArray(dims=VDS(other), values=np.full(VDS(other).shape, 3.0))
        accept = all(l in own for l in other)
        for how in ("ctor", "set_prms"):
            if how == "ctor":
                st, got = attempt(lambda: flodym.NormalLifetime(dims=VDS(own), mean=prm, std=1.0))
            else:
                lm = flodym.NormalLifetime(dims=VDS(own))
                st, got = attempt(lambda: lm.set_prms(mean=prm, std=1.0))
            if accept and st == "raised":
                return fail(f"parameter over a subset of the model's dims was refused via {how}: {got}")
            if not accept and st != "raised":
                return fail(f"parameter with a dimension the model lacks was accepted via {how}")
        return ("accepted" if accept else "refused-as-required"), None
    else:
        raise ValueError(role)
    st, got = attempt(lambda: cls(**kw))
    if accept and st == "raised":
        return fail(f"a consistent construction was refused: {got}")
    if not accept and st != "raised":
        return fail("was accepted although the dimensions differ from the stock's own or time is not first")
    return ("accepted" if accept else "refused-as-required"), None


def run_shape_ctor_case(which):
    """constructors over a dimension set with two NAMESAKE dimensions of different length, and the scalar constructor:
    the shape follows the dimensions' lengths in order; any other ndarray shape is refused"""
    import flodym
    from flodym import Dimension, DimensionSet, FlodymArray

    case = dict(kind="shape-ctor", which=which)

    def fail(what):
        return "fail", dict(case=case, tags=dict(kind="shape-ctor", which=which), what=f"{which}: {what}")

    if which.startswith("namesake"):
        o = Dimension(name="Region", letter="o", items=["EU", "US"])
        d = Dimension(name="Region", letter="d", items=["EU", "US", "CN"])
        st, ds = attempt(lambda: DimensionSet(dim_list=[o, d] if which == "namesake-od" else [d, o]))
        if st == "raised":
            return "refused-as-required", None  # refusing two dimensions of one name is fine
        shape = (2, 3) if which == "namesake-od" else (3, 2)
        if tuple(ds.shape) != shape:
            return fail(f"shape of the set {tuple(ds.shape)}, lengths in order {shape}")
        makers = dict(zeros=lambda: FlodymArray(dims=ds), full=lambda: FlodymArray.full(ds, 2.5), good=lambda: FlodymArray(dims=ds, values=np.ones(shape)), par=lambda: flodym.Parameter(dims=ds, values=np.ones(shape), name="par"))
        for nm, mk in makers.items():
            st, a = attempt(mk)
            if st == "raised":
                return fail(f"{nm}: a consistent construction raised {a}")
            if tuple(a.values.shape) != shape or tuple(a.dims.shape) != shape:
                return fail(f"{nm}: values shape {a.values.shape}, dims shape {tuple(a.dims.shape)}, lengths in order {shape}")
        a = FlodymArray(dims=ds)
        for bad in (shape[::-1], (2, 2), (3, 3), (6,)):
            if attempt(lambda: FlodymArray(dims=ds, values=np.ones(bad)))[0] != "raised":
                return fail(f"constructor accepted values of shape {bad} for lengths {shape}")
            if attempt(lambda: a.set_values(np.ones(bad)))[0] != "raised" or tuple(a.values.shape) != shape:
                return fail(f"set_values accepted / stored values of shape {bad} for lengths {shape}")
            if attempt(lambda: a.__setitem__(Ellipsis, np.ones(bad)))[0] != "raised" or tuple(a.values.shape) != shape:
                return fail(f"[...] = ndarray of shape {bad} accepted for lengths {shape}")
        st, info = attempt(lambda: a.set_values(np.full(shape, 4.0)))
        if st == "raised" or tuple(a.values.shape) != shape:
            return fail(f"set_values with the exact shape {shape} raised / stored {a.values.shape}: {info}")
        return "ok", None
    # scalar constructor
    for cls in (FlodymArray, flodym.Parameter):
        for good in (5.0, 3, np.float64(2.5), np.array(7.0)):
            st, a = attempt(lambda: cls.scalar(good))
            if st == "raised" or tuple(a.values.shape) != () or a.dims.ndim != 0:
                return fail(f"{cls.__name__}.scalar({good!r}) -> {a if st == 'raised' else a.values.shape}")
        for bad in (np.array([5.0]), np.array([[5.0]]), np.array([1.0, 2.0]), np.ones((1, 1, 1))):
            st, a = attempt(lambda: cls.scalar(bad))
            if st != "raised":
                return fail(f"{cls.__name__}.scalar(ndarray of shape {bad.shape}) was accepted (values shape {a.values.shape}) instead of rejected")
    return "ok", None


def run_failcompute_case(solver, fault, where, npr):
    """a compute() that raises (singular survival table or NaN for ONE label, parameters missing) must
    leave stock, inflow and outflow exactly as they were"""
    import flodym

    case = dict(kind="failcompute", solver=solver, fault=fault, where=where, npr=npr)
    from flodym import Dimension, DimensionSet

    if solver == "simple":
        # a flow-driven stock whose time dimension cannot give interval lengths (two steps only / text items)
        titems = [2000, 2001] if fault == "two-steps" else ["early", "mid", "late", "last"]
        dims = DimensionSet(dim_list=[Dimension(name="Time", letter="t", items=titems), Dimension(name="Product", letter="p", items=[f"p{i+1}" for i in range(npr)])])
        st0, s = attempt(lambda: flodym.SimpleFlowDrivenStock(dims=dims))
        if st0 == "raised":
            return "construction-refused", None
        n_t = len(titems)
        s.inflow.values[...] = 10.0 + np.arange(n_t * npr).reshape(n_t, npr)
        s.outflow.values[...] = 7.5
        s.stock.values[...] = 3.25
        before = [a.values.copy() for a in (s.stock, s.inflow, s.outflow)]
        st, info = attempt(lambda: s.compute())
        if st != "raised":
            return "compute-did-not-raise", None
        for nm, b, a in zip(("stock", "inflow", "outflow"), before, [a.values for a in (s.stock, s.inflow, s.outflow)]):
            if a.shape != b.shape or not np.array_equal(a, b, equal_nan=True):
                return "fail", dict(case=case, tags=dict(kind="changed-on-error", op="compute"), what=f"SimpleFlowDrivenStock over time items {titems}: compute() raised ({info[:80]}) but changed the {nm} array")
        return "failed-compute-changed-nothing", None
    dims = DimensionSet(dim_list=[Dimension(name="Time", letter="t", items=[2000, 2001, 2002, 2003], dtype=int), Dimension(name="Product", letter="p", items=[f"p{i+1}" for i in range(npr)])])
    cls = flodym.InflowDrivenDSM if solver == "inflow" else flodym.StockDrivenDSM
    kw = {} if solver == "inflow" else dict(solver=solver)
    lm = flodym.FixedLifetime(dims=dims)
    s = cls(dims=dims, lifetime_model=lm, **kw)
    mean = np.full((4, npr), 2.5)
    if fault == "singular":
        mean[:, where] = 0.0  # nothing of that product survives its first interval: singular table
    if fault != "no-parameters":
        lm.set_prms(mean=mean)
    drv = s.inflow if solver == "inflow" else s.stock
    drv.values[...] = 10.0 + np.arange(4 * npr).reshape(4, npr)
    if fault == "nan":
        drv.values[2, where] = np.nan
    s.inflow.values[...] = s.inflow.values + 0.25
    s.outflow.values[...] = 7.5
    if solver == "inflow":
        s.stock.values[...] = 3.25
    before = [a.values.copy() for a in (s.stock, s.inflow, s.outflow)]
    st, info = attempt(lambda: s.compute())
    if st != "raised":
        return "compute-did-not-raise", None
    after = [a.values for a in (s.stock, s.inflow, s.outflow)]
    for nm, b, a in zip(("stock", "inflow", "outflow"), before, after):
        if a.shape != b.shape or not np.array_equal(a, b, equal_nan=True):
            return "fail", dict(case=case, tags=dict(kind="changed-on-error", op="compute"), what=f"{cls.__name__}(solver={solver}) compute() raised ({info[:80]}) for fault '{fault}' at product #{where} of {npr} but changed the {nm} array")
    return "failed-compute-changed-nothing", None


def failcompute_cases():
    for solver in ("lapack", "manual", "inflow"):
        for fault in ("singular", "nan", "no-parameters"):
            for npr in (1, 2, 3):
                for where in range(npr):
                    yield (solver, fault, where, npr)
    for fault in ("two-steps", "text-time"):
        for npr in (1, 2, 3):
            yield ("simple", fault, 0, npr)


def validator_cases():
    arrs = ["".join(a) for a in S.arrangements("tpq")]
    for cls_name in ("SimpleFlowDrivenStock", "InflowDrivenDSM", "StockDrivenDSM"):
        for own in arrs:
            yield (cls_name, own, "none", "")
            if own and own[0] == "t":
                for role in ("stock", "inflow", "outflow", "lifetime_model"):
                    for other in arrs:
                        yield (cls_name, own, role, other)
                    for k in range(len(own)):  # one dimension replaced by a namesake with another letter and other items
                        yield (cls_name, own, role, own[:k] + own[k].upper() + own[k + 1 :])
    for own in arrs:
        for other in arrs:
            yield ("NormalLifetime", own, "lm-parameter", other)


# ---- driver ---------------------------------------------------------------------------------------


def bounds(tier):
    return dict(depth=2 if tier == "quick" else 3, alphabet=len(OPS), validator_cases=len(list(validator_cases())))


def units(tier, seed):
    out = [dict(kind="bfs", first=k, depth=2 if tier == "quick" else 3) for k in range(len(OPS))]
    vc = list(validator_cases())
    for i in range(0, len(vc), 100):
        out.append(dict(kind="validators", lo=i, hi=i + 100))
    out.append(dict(kind="failcompute"))
    return out


def run_unit(u):
    if u["kind"] == "failcompute":
        res = dict(evals=0, nontrivial=0, outcomes={}, fails=[], samples=[], states=0, transitions=0, traces=0)
        for which in ("namesake-od", "namesake-do", "scalar"):
            oc, f = run_shape_ctor_case(which)
            res["evals"] += 1
            res["nontrivial"] += 1
            res["outcomes"][oc] = res["outcomes"].get(oc, 0) + 1
            if f:
                res["fails"].append(f)
        for c in failcompute_cases():
            oc, f = run_failcompute_case(*c)
            res["evals"] += 1
            res["nontrivial"] += 1 if oc != "compute-did-not-raise" else 0
            res["outcomes"][oc] = res["outcomes"].get(oc, 0) + 1
            if f:
                res["fails"].append(f)
        return res
    if u["kind"] == "validators":
        res = dict(evals=0, nontrivial=0, outcomes={}, fails=[], samples=[], states=0, transitions=0, traces=0)
        for c in list(validator_cases())[u["lo"] : u["hi"]]:
            oc, f = run_validator_case(*c)
            if oc == "n/a":
                continue
            res["evals"] += 1
            res["nontrivial"] += 1
            res["outcomes"][oc] = res["outcomes"].get(oc, 0) + 1
            if f:
                res["fails"].append(f)
        if u["lo"] == 0:
            res["samples"].append(dict(kind="validator", cls="InflowDrivenDSM", own="tpq", role="inflow", other="tqp", meaning="inflow array over (t,q,p) for a stock over (t,p,q), all dimensions of length 3: must be refused"))
        return res
    r = bfs.explore(build_state, OPS, apply_op, canon, u["depth"], prefix=[OPS[u["first"]]])
    for f in r["fails"]:
        f["case"] = dict(kind="bfs", history=f["case"]["history"])
        f["what"] = f"history {[{k: v for k, v in o.items() if k != 'ill'} for o in f['case']['history']]}: " + f["what"]
    res = dict(evals=r["transitions"], nontrivial=r["transitions"], outcomes=r["outcomes"], fails=r["fails"], states=r["states"], transitions=r["transitions"], traces=r["traces"], samples=[])
    if u["first"] == 5:
        res["samples"].append(dict(kind="bfs", history=[OPS[5], OPS[60]], meaning="two operations in sequence; invariant values.shape == dims.shape checked on all three registers after each"))
    return res


def replay(case):
    if case["kind"] == "shape-ctor":
        oc, f = run_shape_ctor_case(case["which"])
        return [f] if f else []
    if case["kind"] == "failcompute":
        oc, f = run_failcompute_case(case["solver"], case["fault"], case["where"], case["npr"])
        return [f] if f else []
    if case["kind"] == "validator":
        oc, f = run_validator_case(case["cls"], case["own"], case["role"], case["other"])
        return [f] if f else []
    st = build_state()
    for op in case["history"]:
        oc, f = apply_op(st, op, True)
        if f:
            f["case"] = case
            return [f]
    return []
