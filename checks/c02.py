"""C02 - mass-balance and flow checks report exactly the violations.

E1: every system graph within the bound (processes, multisets of flows over ordered process pairs
incl. parallel, opposing and self loops, per-flow dimension arrangement, stock attachments) x value
assignment x tolerance probes.  The verdict of check_mass_balance is binary, so the MAGNITUDE of the
balance is pinned through the public API by tolerance probes around the model's max |balance|
(just above: must succeed; just below: must fail; exactly equal: must succeed), by NaN injection,
and by single-entry perturbations of balanced systems straddling the default tolerance.
check_flows: every assignment of {clean, NaN, -0.25 tol, -4 tol} to the flows x every subset of
flow / process names as exceptions x raise_error x verbose.
"""

import itertools
import logging
import math

import numpy as np

from mc import refmodel as R, spaces as S
from mc.util import attempt

PROPERTY = "C02"
LEVEL = "exploration"
ENGINE = "E1-enumeration"
TECHNIQUE = "bounded exhaustive enumeration of system graphs with tolerance probes around the reference model's balance"
RULE = (
    "complete enumeration of (process set: sysenv + 1..2 others, 3 thorough; names chosen so that one is a "
    "substring of another) x (multiset of <= 2 flows, 3 thorough, over all ordered process pairs incl. self "
    "loops, each over one of the 5 arrangements of {t,p}) x (stock attachment: none, flow-driven stock at a "
    "process over (t,p) / (t), two stocks at one process, stock at sysenv, stock without process, process "
    "without any flow) x probes {explicit tolerance just above / just below / exactly at the model's max "
    "|balance|, default tolerance, NaN in one entry} x raise_error; balanced twin-flow systems with one entry "
    "perturbed by 0.25x / 4x the default tolerance (also with the tolerance dominated by a large stock); "
    "sequences of two checks on one system object whose values are rescaled in place by 2^+-20 in between; "
    "check_flows over every per-flow state assignment x every exception subset x raise_error x verbose. "
    "Non-trivial = system with at least one flow. Distinct by construction."
    " Also: flows dicts keyed by aliases, flows named like processes, a process-less stock dominating the default tolerance, check_flows at the tolerance edge."
)
ASSUMPTIONS = [
    "flow / stock values are small integers (exact sums) plus single perturbations; not all reals",
    "bounds: <= 3 (4) processes, <= 2 (3) flows in the enumerated multisets, 2 dimensions t (3 items), p (2 items)",
    "failure with raise_error=False is observed as >= 1 WARNING record on the root logger and no exception; success as no WARNING record",
    "flagged flows of check_flows are read from the WARNING messages by flow name (names are not substrings of one another)",
]
LEVEL_TEXT = (
    "Every system graph within the bound is built with the real MFASystem and both checks are driven through "
    "their public interface; the reference model recomputes every process balance by label and the expected "
    "verdict, and tolerance probes straddling the model's value pin the computed magnitude from both sides."
)
LEVEL_NOTE = "Trusted: label-dict model of the balance, Python logging capture. Bounded graph size; integer value alphabet."

PROC_NAMES = ["sysenv", "use", "reuse", "end"]
ARRS = ["", "t", "p", "tp", "pt"]
ITEMS = {"t": (2000, 2001, 2002), "p": ("p1", "p2")}
EPS = float(np.finfo(float).eps)


class Capture(logging.Handler):
    def __init__(self):
        super().__init__(level=logging.WARNING)
        self.records = []

    def emit(self, record):
        self.records.append(record.getMessage())


def with_capture(fn):
    h = Capture()
    root = logging.getLogger()
    old = root.level
    root.setLevel(logging.WARNING)
    root.addHandler(h)
    try:
        st, info = attempt(fn)
    finally:
        root.removeHandler(h)
        root.setLevel(old)
    return st, info, h.records


def dims_obj(letters):
    from flodym import Dimension, DimensionSet

    names = {"t": "Time", "p": "Product"}
    return DimensionSet(dim_list=[Dimension(name=names[l], letter=l, items=list(ITEMS[l])) for l in letters])


def flow_fn(k, letters):
    base = S.val_base(4, 0)

    def f(lab):
        s = 16 * (k + 1)
        for l, it in zip(letters, lab):
            s += (3 if l == "t" else 1) * (1 + ITEMS[l].index(it)) * (k + 2)
        return float(s)

    return f


def build_system(spec):
    """spec: dict(nproc, flows=[(src, dst, arr)], stocks=[(proc or None, arr, kind)], scale_stock)
    returns (MFASystem, model: processes, flows [(name, src, dst, MArr)], stocks [(proc, MArr in, MArr out, MArr stock)])"""
    import flodym

    procs = flodym.make_processes(PROC_NAMES[: spec["nproc"]])
    if spec.get("proc_order") == "reversed":  # a hand-built system: dict order differs from the order of the ids
        procs = dict(reversed(list(procs.items())))
    flows, mflows = {}, []
    for k, fl in enumerate(spec["flows"]):
        src, dst, arr = fl[0], fl[1], fl[2]
        letters = tuple(arr)
        fn = flow_fn(fl[3] if len(fl) > 3 else k, letters)
        ds = dims_obj(letters)
        if k in spec.get("zero_flows", []):  # an all-zero flow still takes part in the balance (and narrows the common dims)
            fn = lambda lab: 0.0
        v = S.ndarray_for(letters, ITEMS, fn, "C")
        name = (spec.get("flow_names") or {}).get(str(k), f"F{k+1}")
        # "alias_keys": the flows dict is keyed by short aliases that differ from the flows' names
        flows[f"K{k+1}" if spec.get("alias_keys") else name] = flodym.Flow(from_process=procs[PROC_NAMES[src]], to_process=procs[PROC_NAMES[dst]], name=name, dims=ds, values=v)
        mflows.append((name, src, dst, R.build(letters, ITEMS, fn)))
    stocks, mstocks = {}, []
    for k, (proc, arr, kind) in enumerate(spec.get("stocks", [])):
        letters = tuple(arr)
        ds = dims_obj(letters)
        s = flodym.SimpleFlowDrivenStock(dims=ds, name=f"S{k+1}", process=None if proc is None else procs[PROC_NAMES[proc]])
        fi, fo = flow_fn(5 + k, letters), flow_fn(8 + k, letters)
        if kind == "balanced":
            fo = fi
        s.inflow.values[...] = S.ndarray_for(letters, ITEMS, fi, "C")
        s.outflow.values[...] = S.ndarray_for(letters, ITEMS, fo, "C")
        s.stock.values[...] = spec.get("stock_level", 7.0)
        stocks[s.name] = s
        mstocks.append((proc, R.build(letters, ITEMS, fi), R.build(letters, ITEMS, fo), spec.get("stock_level", 7.0)))
    mfa = flodym.MFASystem(dims=dims_obj("tp"), parameters={}, processes=procs, flows=flows, stocks=stocks)
    return mfa, (spec["nproc"], mflows, mstocks)


def model_balance(model):
    """per process: list of balance entries (dict label->value over the common dims)"""
    nproc, mflows, mstocks = model
    contrib = {p: [] for p in range(nproc)}
    for name, src, dst, a in mflows:
        contrib[src].append(R.elementwise(a, lambda v: -v))
        contrib[dst].append(a)
    for proc, ai, ao, _ in mstocks:
        if proc is None:
            continue
        change = R.additive(ai, ao, lambda x, y: x - y)
        contrib[proc].append(R.elementwise(change, lambda v: -v))
        contrib[0].append(change)
    out = {}
    for p, parts in contrib.items():
        if not parts:
            out[p] = {(): 0.0}
            continue
        common = [l for l in parts[0].letters if all(l in q.letters for q in parts)]
        tot = None
        for q in parts:
            m = R.marginal(q, common)
            if tot is None:
                tot = dict(m.data)
            else:
                for k2, v in m.data.items():
                    tot[k2] += v
        out[p] = tot
    return out


def max_abs(model_bal):
    m = 0.0
    nan = False
    for p, d in model_bal.items():
        for v in d.values():
            if v != v:
                nan = True
            elif abs(v) > m:
                m = abs(v)
    return m, nan


def default_tol(model):
    nproc, mflows, mstocks = model
    mx = 0.0
    for _, _, _, a in mflows:
        for v in a.data.values():
            if v == v and abs(v) != math.inf:
                mx = max(mx, abs(v))
    for _, _, _, lvl in mstocks:
        mx = max(mx, abs(lvl))
    return 100 * EPS * mx


def verdict_call(mfa, tolerance, raise_error):
    kw = dict(raise_error=raise_error)
    if tolerance is not None:
        kw["tolerance"] = tolerance
    st, info, recs = with_capture(lambda: mfa.check_mass_balance(**kw))
    if st == "raised":
        return "raised", info
    return ("warned" if recs else "success"), recs


def expect_verdict(fails, raise_error):
    if not fails:
        return "success"
    return "raised" if raise_error else "warned"


# ---- spec enumeration ---------------------------------------------------------------------------


def stock_configs(nproc):
    cfgs = [[]]
    cfgs.append([(1, "tp", "gen")])
    cfgs.append([(1, "t", "gen")])
    cfgs.append([(None, "tp", "gen")])
    cfgs.append([(1, "tp", "gen"), (1, "t", "gen")])
    cfgs.append([(0, "tp", "gen")])
    if nproc > 2:
        cfgs.append([(2, "tp", "gen"), (1, "tp", "gen")])
    return cfgs


def flow_multisets(nproc, kmax):
    types = [(s, d, a) for s in range(nproc) for d in range(nproc) for a in ARRS]
    for k in range(kmax + 1):
        yield from itertools.combinations_with_replacement(types, k)


def bounds(tier):
    return dict(max_processes=3 if tier == "quick" else 4, max_flows=2 if tier == "quick" else 3, arrangements=ARRS)


def units(tier, seed):
    out = []
    for nproc in ((2, 3) if tier == "quick" else (2, 3, 4)):
        kmax = 2 if tier == "quick" else (3 if nproc < 4 else 2)
        ms = list(flow_multisets(nproc, kmax))
        chunk = 60
        for i in range(0, len(ms), chunk):
            out.append(dict(kind="graphs", nproc=nproc, kmax=kmax, lo=i, hi=min(len(ms), i + chunk)))
    for nproc in (2, 3):
        for k in range(8 if nproc == 3 else 2):
            out.append(dict(kind="straddle", nproc=nproc, part=k, parts=8 if nproc == 3 else 2))
    for nproc in (2, 3):
        for k in range(12):
            out.append(dict(kind="flows", nproc=nproc, part=k))
    return out


def run_graph_case(spec, probe):
    """probe: ('above'|'below'|'exact'|'default'|'nan-explicit'|'nan-default', raise_error)"""
    case = dict(kind="graph", spec=spec, probe=list(probe))
    name, raise_error = probe

    def fail(kind, what):
        return "fail", dict(case=case, tags=dict(kind=kind, probe=name, stocks=len(spec.get("stocks", [])), empty_process=spec["nproc"] > 1 + len({x for f in spec["flows"] for x in f[:2]} - {0})), what=f"system {spec} probe {probe}: {what}")

    st, built = attempt(lambda: build_system(spec))
    if st == "raised":
        return fail("build", f"building the system raised {built}")
    mfa, model = built
    if name == "inf-elsewhere":
        # an infinite value in a stock that is attached to no process does not enter any balance; the
        # default tolerance must stay finite, so a real imbalance is still reported
        import flodym as _fl

        st_inf = _fl.SimpleFlowDrivenStock(dims=dims_obj("t"), name="loose", process=None)
        st_inf.stock.values[...] = np.inf
        mfa.stocks["loose"] = st_inf
    if name.startswith("nan"):
        if not spec["flows"]:
            return "n/a", None
        f0 = mfa.flows["F1"]
        idx = tuple(0 for _ in f0.values.shape)
        f0.values[idx] = np.nan
        lab = tuple(ITEMS[l][0] for l in model[1][0][3].letters)
        model[1][0][3].data[lab] = float("nan")
        src, dst = spec["flows"][0][0], spec["flows"][0][1]
        if src == dst:
            # a self loop cancels symbolically but NaN - NaN is NaN: the balance of that process is NaN
            pass
    bal = model_balance(model)
    M, has_nan = max_abs(bal)
    if name == "above":
        tol = M * (1 + 1e-6) + 1e-9
        fails = has_nan
    elif name == "below":
        if M == 0:
            return "n/a", None
        tol = M * (1 - 1e-6)
        fails = True
    elif name == "exact":
        tol = M
        fails = has_nan
        if M == 0:
            return "n/a", None
    elif name in ("default", "inf-elsewhere"):
        tol = None
        fails = M > default_tol(model) or has_nan
    elif name == "nan-explicit":
        tol = 1e6
        fails = has_nan
        if not has_nan:
            return "n/a", None
    else:
        tol = None
        fails = True
        if not has_nan:
            return "n/a", None
    got, info = verdict_call(mfa, tol, raise_error)
    want = expect_verdict(fails, raise_error)
    if got != want:
        return fail("verdict", f"check_mass_balance(tolerance={tol}, raise_error={raise_error}) -> {got} ({str(info)[:200]}), expected {want}; model max |balance| = {M}, NaN = {has_nan}, per process {dict((PROC_NAMES[p], sorted(d.values())[:4]) for p, d in bal.items())}")
    return "verdict-" + want, None


PROBES = [("inf-elsewhere", True), ("above", True), ("above", False), ("below", True), ("below", False), ("exact", True), ("default", True), ("default", False), ("nan-explicit", True), ("nan-explicit", False), ("nan-default", True)]


def run_graphs(u, res):
    ms = list(flow_multisets(u["nproc"], u["kmax"]))[u["lo"] : u["hi"]]
    for flows in ms:
        variants = [[]]
        if len(flows) == 2 and set(flows[0][2]) != set(flows[1][2]):
            variants += [[0], [1]]
        for sc, zf in [(sc, zf) for sc in stock_configs(u["nproc"]) for zf in variants]:
            if zf and sc not in ([], stock_configs(u["nproc"])[1]):
                continue
            spec = dict(nproc=u["nproc"], flows=[list(f) for f in flows], stocks=[list(s) for s in sc], zero_flows=zf)
            if sc and not zf and (len(flows) + len(sc)) % 2 == 0:
                spec["proc_order"] = "reversed"
            for probe in PROBES:
                oc, f = run_graph_case(spec, probe)
                if oc == "n/a":
                    continue
                res["evals"] += 1
                res["nontrivial"] += 1 if flows else 0
                res["outcomes"][oc] = res["outcomes"].get(oc, 0) + 1
                if f:
                    res["fails"].append(f)


# ---- default-tolerance straddle on balanced systems -----------------------------------------------


def run_straddle_case(spec, which, pos, factor, raise_error, zero_tol=False):
    case = dict(kind="straddle", spec=spec, which=which, pos=pos, factor=factor, raise_error=raise_error, zero_tol=zero_tol)

    def fail(kind, what):
        return "fail", dict(case=case, tags=dict(kind=kind, probe="straddle", factor=factor), what=f"balanced system {spec}, {which} entry {pos} perturbed by {factor} x default tolerance: {what}")

    mfa, model = build_system(spec)
    tol = default_tol(model)
    f = mfa.flows[which]
    idx = np.unravel_index(pos % max(1, f.values.size), f.values.shape) if f.values.shape else ()
    f.values[idx] = f.values[idx] + factor * tol
    if factor == 0.0:  # an exactly balanced system is within a tolerance of exactly zero
        got, info = verdict_call(mfa, 0.0, raise_error)
    elif zero_tol:  # an explicit tolerance of 0 is a tolerance of 0 (not "use the default"): any imbalance fails
        got, info = verdict_call(mfa, 0.0 if pos == 0 else 0, raise_error)
    else:
        got, info = verdict_call(mfa, None, raise_error)
    want = expect_verdict(abs(factor) > 1 or (zero_tol and factor != 0.0), raise_error)
    if got != want:
        return fail("verdict", f"-> {got} ({str(info)[:160]}), expected {want} (default tolerance {tol})")
    if factor != 0.0 and not zero_tol and "F2" in mfa.flows:
        # check_flows works with the same default tolerance: an entry of -4 x tolerance is flagged, -0.25 x not
        f2 = mfa.flows["F2"]
        idx2 = np.unravel_index(pos % max(1, f2.values.size), f2.values.shape) if f2.values.shape else ()
        f2.values[idx2] = -abs(factor) * tol
        st, info2, recs = with_capture(lambda: mfa.check_flows(raise_error=False))
        flagged = any("F2" in r for r in recs)
        if st == "raised" or flagged != (abs(factor) > 1):
            return fail("flagged-set", f"check_flows with an F2 entry at -{abs(factor)} x default tolerance ({tol}): flagged={flagged} ({st} {recs}), expected {abs(factor) > 1}")
    return "straddle-" + want, None


def run_sequence_case(spec, stages, raise_error):
    """several checks on ONE system object whose values are rescaled in place between the checks:
    stages = [(power-of-two exponent of the scale, perturbation factor of F1[0] in units of the default tolerance)]"""
    case = dict(kind="sequence", spec=spec, stages=stages, raise_error=raise_error)

    def fail(kind, what):
        return "fail", dict(case=case, tags=dict(kind=kind, probe="sequence"), what=f"balanced system {spec}, successive checks on one object with in-place rescaling {stages}: {what}")

    mfa, model = build_system(spec)
    base = {n: f.values.copy() for n, f in mfa.flows.items()}
    tol1 = default_tol(model)
    for k, (exp, factor) in enumerate(stages):
        sc = 2.0 ** exp
        for n, f in mfa.flows.items():
            f.values[...] = base[n] * sc
        tol = tol1 * sc
        f1 = mfa.flows["F1"]
        idx = tuple(0 for _ in f1.values.shape)
        f1.values[idx] = f1.values[idx] + factor * tol
        got, info = verdict_call(mfa, None, raise_error)
        want = expect_verdict(abs(factor) > 1, raise_error)
        if got != want:
            return fail("verdict", f"check #{k+1} at scale 2^{exp} with F1 perturbed by {factor} x tolerance -> {got} ({str(info)[:160]}), expected {want}")
        # check_flows uses the same tolerance: a negative entry of 4 x tol must be flagged, 0.25 x tol not
        f2 = mfa.flows["F2"]
        old = f2.values[idx]
        f2.values[idx] = -abs(factor) * tol
        st, info2, recs = with_capture(lambda: mfa.check_flows(raise_error=False))
        f2.values[idx] = old
        flagged = any("F2" in r for r in recs)
        if st == "raised" or flagged != (abs(factor) > 1):
            return fail("flagged-set", f"check_flows #{k+1} at scale 2^{exp} with F2 entry at -{abs(factor)} x tolerance: flagged={flagged} ({st} {recs}), expected {abs(factor) > 1}")
    return "sequence-ok", None


SEQUENCES = [[(20, 0.25), (0, 4.0)], [(0, 0.25), (20, 0.25)], [(0, 0.0), (-20, 4.0)], [(-20, 0.0), (0, 0.25)], [(20, 4.0), (0, 4.0)], [(0, 0.25), (0, 0.25)]]


def straddle_specs(nproc):
    types = [(s, d, a) for s in range(nproc) for d in range(nproc) if s != d for a in ARRS]
    for k in (1, 2):
        for base in itertools.combinations_with_replacement(types, k):
            flows = []
            for j, (s, d, a) in enumerate(base):
                flows.append([s, d, a, j])
                flows.append([d, s, a, j])
            yield flows


def run_straddle(u, res):
    for fi, flows in enumerate(straddle_specs(u["nproc"])):
        if fi % u["parts"] != u["part"]:
            continue
        for sc, lvl in (([], 7.0), ([[1, "tp", "balanced"]], 7.0), ([[1, "tp", "balanced"]], 1.0e6), ([[None, "tp", "balanced"]], 1.0e6), ([[None, "t", "gen"], [1, "tp", "balanced"]], 3.0e5)):
            spec = dict(nproc=u["nproc"], flows=flows, stocks=sc, stock_level=lvl)
            for factor in (0.25, 4.0, -0.25, -4.0, 0.0):
                for raise_error in (True, False):
                    for pos, ztol in ((0, False), (3, False), (0, True), (3, True)):
                        if ztol and abs(factor) != 0.25:
                            continue
                        oc, f = run_straddle_case(spec, "F1", pos, factor, raise_error, ztol)
                        res["evals"] += 1
                        res["nontrivial"] += 1
                        res["outcomes"][oc] = res["outcomes"].get(oc, 0) + 1
                        if f:
                            res["fails"].append(f)
        spec = dict(nproc=u["nproc"], flows=flows, stocks=[], stock_level=7.0)
        for stages in SEQUENCES:
            for raise_error in (True, False):
                oc, f = run_sequence_case(spec, [list(x) for x in stages], raise_error)
                res["evals"] += 1
                res["nontrivial"] += 1
                res["outcomes"][oc] = res["outcomes"].get(oc, 0) + 1
                if f:
                    res["fails"].append(f)


# ---- check_flows ----------------------------------------------------------------------------------

FLOW_STATES = ("clean", "nan", "neg-small", "neg-big", "posinf")


def run_flows_case(spec, states, exceptions, raise_error, verbose):
    case = dict(kind="flows", spec=spec, states=states, exceptions=exceptions, raise_error=raise_error, verbose=verbose)

    def fail(kind, what):
        return "fail", dict(case=case, tags=dict(kind=kind, probe="check_flows", verbose=verbose), what=f"check_flows(exceptions={exceptions}, raise_error={raise_error}, verbose={verbose}) on {spec} with flow states {states}: {what}")

    mfa, model = build_system(spec)
    tol = default_tol(model)
    expected = set()
    fnames = [(spec.get("flow_names") or {}).get(str(k), f"F{k+1}") for k in range(len(spec["flows"]))]
    for k, (fl, stt) in enumerate(zip(spec["flows"], states)):
        name = fnames[k]
        f = mfa.flows[f"K{k+1}" if spec.get("alias_keys") else name]
        idx = tuple((k + 1) % n for n in f.values.shape)
        if stt == "nan":
            f.values[idx] = np.nan
        elif stt == "neg-small":
            f.values[idx] = -0.25 * tol
        elif stt == "neg-big":
            f.values[idx] = -4.0 * tol
        elif stt == "posinf":
            f.values[idx] = np.inf  # neither NaN nor negative: not flagged, and must not blind the check for other flows
        excepted = name in exceptions or PROC_NAMES[fl[0]] in exceptions or PROC_NAMES[fl[1]] in exceptions
        if stt in ("nan", "neg-big") and not excepted:
            expected.add(name)
    if exceptions:
        st, info, recs = with_capture(lambda: mfa.check_flows(exceptions=list(exceptions), raise_error=raise_error, verbose=verbose))
    else:  # rely on the default (no exceptions); earlier calls in this process passed non-empty lists
        st, info, recs = with_capture(lambda: mfa.check_flows(raise_error=raise_error, verbose=verbose))
    if raise_error:
        if expected and st != "raised":
            return fail("must-raise", f"flows {sorted(expected)} are faulty and not excepted, but nothing was raised")
        if not expected and st == "raised":
            return fail("raised", f"raised {info} although no non-excepted flow is faulty")
        return "flows-" + ("raised" if expected else "clean"), None
    if st == "raised":
        return fail("raised", f"raised {info} with raise_error=False")
    flagged = set()
    import re as _re

    for msg in recs:
        head = msg.split("\n")[0]  # (verbose mode lists the offending items on further lines)
        for k in range(len(spec["flows"])):
            pat = rf"[FK]{k+1}" if fnames[k] == f"F{k+1}" else rf"(?:{_re.escape(fnames[k])}|K{k+1})"
            if _re.search(rf"(?<![A-Za-z0-9_]){pat}(?![A-Za-z0-9_])", head):  # (named by its name or by its key)
                flagged.add(fnames[k])
    if flagged != expected:
        return fail("flagged-set", f"flagged {sorted(flagged)} (messages {recs}), expected exactly {sorted(expected)}")
    if not expected and recs:
        return fail("flagged-set", f"warnings {recs} although nothing is to be flagged")
    return "flows-" + ("flagged" if expected else "clean"), None


def run_int_flows_case(order, balanced, raise_error):
    """flows holding whole numbers in INTEGER arrays (counts): the default tolerance must work whichever flow is first"""
    import flodym

    case = dict(kind="int-flows", order=order, balanced=balanced, raise_error=raise_error)
    procs = flodym.make_processes(PROC_NAMES[:2])
    ds = dims_obj("t")
    n = ds.shape[0]
    fin = flodym.Flow(from_process=procs[PROC_NAMES[0]], to_process=procs[PROC_NAMES[1]], name="F1", dims=ds, values=np.arange(3, 3 + n, dtype=np.int64))
    fout = flodym.Flow(from_process=procs[PROC_NAMES[1]], to_process=procs[PROC_NAMES[0]], name="F2", dims=ds, values=np.arange(3, 3 + n).astype(float) + (0.0 if balanced else 1.0))
    flows = {"F1": fin, "F2": fout} if order == "int-first" else {"F2": fout, "F1": fin}
    mfa = flodym.MFASystem(dims=dims_obj("tp"), parameters={}, processes=procs, flows=flows, stocks={})
    got, info = verdict_call(mfa, None, raise_error)
    want = expect_verdict(not balanced, raise_error)
    if got != want:
        return "fail", dict(case=case, tags=dict(kind="verdict", probe="int-flows"), what=f"system with an integer-valued flow ({order}), {'balanced' if balanced else 'unbalanced by 1'}: check_mass_balance(raise_error={raise_error}) -> {got} ({str(info)[:160]}), expected {want}")
    st, info2, recs = with_capture(lambda: mfa.check_flows(raise_error=False))
    if st == "raised" or recs:
        return "fail", dict(case=case, tags=dict(kind="flagged-set", probe="int-flows"), what=f"system with an integer-valued flow ({order}): check_flows() -> {st} {recs} {info2}, nothing is to be flagged")
    return "verdict-" + want, None


def flows_specs(nproc):
    specs = []
    pairs = [(s, d) for s in range(nproc) for d in range(nproc)]
    # two flows over every pair of ordered process pairs (dims fixed per position), three flows on a chain
    for (s1, d1), (s2, d2) in itertools.combinations_with_replacement(pairs, 2):
        specs.append(dict(nproc=nproc, flows=[[s1, d1, "tp"], [s2, d2, "t"]], stocks=[]))
    specs.append(dict(nproc=nproc, flows=[[0, 1, "pt"], [1, nproc - 1, "t"], [nproc - 1, 0, ""]], stocks=[[1, "tp", "gen"]]))
    specs.append(dict(nproc=nproc, flows=[[0, 1, "t"]], stocks=[]))
    return specs


def run_flows(u, res):
    if u["part"] == 0 and u["nproc"] == 2:
        for order in ("int-first", "float-first"):
            for balanced in (True, False):
                for raise_error in (True, False):
                    oc, f = run_int_flows_case(order, balanced, raise_error)
                    res["evals"] += 1
                    res["nontrivial"] += 1
                    res["outcomes"][oc] = res["outcomes"].get(oc, 0) + 1
                    if f:
                        res["fails"].append(f)
    specs = [s for i, s in enumerate(flows_specs(u["nproc"])) if i % 12 == u["part"]]
    for spec in specs:
        nf = len(spec["flows"])
        names = [f"F{k+1}" for k in range(nf)] + PROC_NAMES[: spec["nproc"]]
        exc_sets = [list(c) for r in range(0, 3) for c in itertools.combinations(names, r)]
        # the same system with its FIRST flow named like a process it does not touch (a name is a name: excepting it
        # excepts that flow and the flows touching that process, nothing else)
        untouched = [p for i, p in enumerate(PROC_NAMES[: spec["nproc"]]) if i not in spec["flows"][0][:2]]
        if untouched and nf >= 2:
            spec2 = dict(spec, flow_names={"0": untouched[-1]})
            for states in itertools.product(("clean", "nan", "neg-big"), repeat=nf):
                for exc in [list(c) for r in range(0, 3) for c in itertools.combinations(["F2"] + PROC_NAMES[: spec["nproc"]], r)]:
                    for raise_error in (False, True):
                        oc, f = run_flows_case(spec2, list(states), exc, raise_error, False)
                        res["evals"] += 1
                        res["nontrivial"] += 1
                        res["outcomes"][oc] = res["outcomes"].get(oc, 0) + 1
                        if f:
                            res["fails"].append(f)
        for states in itertools.product(FLOW_STATES, repeat=nf):
            if nf == 3 and sum(s != "clean" for s in states) > 2:
                continue
            for exc in exc_sets:
                for raise_error, verbose, alias in ((False, False, False), (True, False, False), (False, True, False), (False, False, True), (True, False, True)):
                    oc, f = run_flows_case(dict(spec, alias_keys=True) if alias else spec, list(states), exc, raise_error, verbose)
                    res["evals"] += 1
                    res["nontrivial"] += 1
                    res["outcomes"][oc] = res["outcomes"].get(oc, 0) + 1
                    if f:
                        res["fails"].append(f)


def run_unit(u):
    res = dict(evals=0, nontrivial=0, outcomes={}, fails=[], samples=[])
    if u["kind"] == "graphs":
        run_graphs(u, res)
        if u["lo"] == 0 and u["nproc"] == 3:
            res["samples"].append(dict(spec=dict(nproc=3, flows=[[0, 1, "tp"], [1, 2, "pt"]], stocks=[[1, "t", "gen"]]), probe=["below", True], meaning="flows sysenv->use over (t,p), use->reuse over (p,t), stock at 'use' over (t): tolerance just below the model's max |balance| must raise"))
    elif u["kind"] == "straddle":
        run_straddle(u, res)
    else:
        run_flows(u, res)
        if u["part"] == 0 and u["nproc"] == 3:
            res["samples"].append(dict(flows=[[0, 1, "tp"], [1, 2, "t"]], states=["neg-big", "nan"], exceptions=["use"], meaning="both flows touch process 'use' -> nothing flagged; 'use' is a substring of 'reuse' but must not except flows touching only 'reuse'"))
    return res


def replay(case):
    if case["kind"] == "graph":
        oc, f = run_graph_case(case["spec"], tuple(case["probe"]))
    elif case["kind"] == "sequence":
        oc, f = run_sequence_case(case["spec"], case["stages"], case["raise_error"])
    elif case["kind"] == "int-flows":
        oc, f = run_int_flows_case(case["order"], case["balanced"], case["raise_error"])
    elif case["kind"] == "straddle":
        oc, f = run_straddle_case(case["spec"], case["which"], case["pos"], case["factor"], case["raise_error"], case.get("zero_tol", False))
    else:
        oc, f = run_flows_case(case["spec"], case["states"], case["exceptions"], case["raise_error"], case["verbose"])
    return [f] if f else []
