"""C20 - Sankey and line plots show the system's numbers under the right labels.

E1: Sankey: system graphs (flows of differing dimensionality in every listing order) x slice
dictionaries (single items and subset Dimensions on each dimension) x exclusion lists (every subset
of processes and of flows) x colour setting (plain; split by each dimension of the flow, by name and
by letter).  Array plotters (plotly and pyplot): every 1..3-dimensional array x EVERY assignment of
its dimensions to {subplot, line, x} roles, by name / by letter / mixed x {no x array, x array over
each subset of the dims in each order} x chart type.  The figures' data are read back (link / node
arrays, trace x / y / name / axis, matplotlib line data, titles, labels) and compared with the model.
"""

import itertools

import numpy as np

from mc import observe, refmodel as R
from mc.util import attempt

PROPERTY = "C20"
LEVEL = "exploration"
ENGINE = "E1-enumeration"
TECHNIQUE = "bounded exhaustive enumeration of plot configurations; figure data read back and compared by label with the reference model"
RULE = (
    "Sankey: complete enumeration of (3-4 processes) x (flow lists: ordered selections of <= 3 flows from a pool "
    "with dims (), (t), (t,p), (p,t), (p,q,t), so that flows lacking a sliced dimension come before and after "
    "flows having it) x (slice dictionaries: {}, single items on each dim and pairs, subset Dimension) x (every "
    "subset of processes excluded, every subset of <= 2 flows excluded) x (plain / split by each dimension of the "
    "first flow by name and by letter). Array plotters: (plotly, pyplot) x (arrays over every arrangement of 1-3 "
    "of the dims t (3 items), p (2), q (2)) x (every assignment of dims to x / line / subplot roles) x (roles given "
    "by name, by letter, mixed) x (x array: none, over each ordered subset of the array's dims) x (line, scatter, "
    "area for plotly; line, scatter for pyplot). Non-trivial = figure with >= 1 link / >= 2 plotted points. "
    "Distinct by construction."
    " Also: process names contained in one another, a falsy slice item, display names (shared labels, renamed / excluded flows), a same-title figure left open."
)
ASSUMPTIONS = [
    "figure contents are read from fig.data / ax.lines / ax.collections; rendering itself (pixels) is not checked",
    "slicing the same dimension a flow is colour-split by is not meaningful and not explored; pyplot 'area' charts (polygons) are not read back",
    "separating integer values; bounds: <= 4 processes, <= 3 flows, 3 dimensions",
]
LEVEL_TEXT = (
    "Every bounded plot configuration is rendered into a real plotly / matplotlib figure object whose data arrays "
    "are read back and compared with the model: links (source node, target node, value, split labels), nodes, and "
    "for every subplot item and line item the x and y data."
)
LEVEL_NOTE = "Trusted: plotly / matplotlib object model as the observation point. Bounded sizes; finite value alphabet."

ITEMS = {"t": [2000, 2001, 0], "p": ["p1", "p2"], "q": ["q1", "q2"]}
NAMES = {"t": "Time", "p": "Product", "q": "Quality", "g": "Grade"}
ITEMS["g"] = [np.int64(100 + 3 * i) for i in range(25)]  # many items (more than a colour map has colours), numpy integers
PROCS = ["sysenv", "use", "reuse", "waste"]
FLOW_POOL = [("", 0), ("t", 1), ("tp", 2), ("pt", 3), ("pqt", 4)]


def DS(letters):
    from flodym import Dimension, DimensionSet

    return DimensionSet(dim_list=[Dimension(name=NAMES[l], letter=l, items=list(ITEMS[l])) for l in letters])


def fvals(letters, k):
    sh = tuple(len(ITEMS[l]) for l in letters)
    v = np.zeros(sh)
    for n, idx in enumerate(itertools.product(*[range(m) for m in sh])):
        v[idx] = float(2 ** (n % 12)) + 4096.0 * (k + 1)
    return v


def model_of(values, letters):
    its = {l: tuple(ITEMS[l]) for l in letters}
    return R.MArr(tuple(letters), its, observe.nd_by_label(values, [its[l] for l in letters]))


# ---- Sankey ---------------------------------------------------------------------------------------


def build_sankey_system(spec):
    import flodym

    procs = flodym.make_processes(PROCS[: spec["nproc"]])
    flows = {}
    for k, (s, d, a) in enumerate(spec["flows"]):
        name = f"F{k}:{PROCS[s]}>{PROCS[d]}"
        v = fvals(a, k)
        z = spec.get("zero")
        if k == 0 and z and z in a:  # the first item of that dimension is absent from the first flow
            idx = [slice(None)] * len(a)
            idx[a.index(z)] = 0
            v[tuple(idx)] = 0.0
        flows[name] = flodym.Flow(from_process=procs[PROCS[s]], to_process=procs[PROCS[d]], name=name, dims=DS(a), values=v)
    return flodym.MFASystem(dims=DS("tpq"), parameters={}, processes=procs, flows=flows, stocks={})


def slice_obj(sl):
    from flodym import Dimension

    out = {}
    for l, v in sl.items():
        if isinstance(v, list):
            out[l] = Dimension(name="Sub" + l, letter="w", items=list(v))
        else:
            out[l] = v
    return out


def run_sankey_case(spec, sl, excl_p, excl_f, split, replot=None):
    from flodym.export import PlotlySankeyPlotter

    case = dict(kind="sankey", spec=spec, sl=sl, excl_p=excl_p, excl_f=excl_f, split=split, replot=replot)

    def fail(kind, what):
        return "fail", dict(case=case, tags=dict(kind=kind, plot="sankey"), what=f"sankey of {spec} slice {sl} exclude processes {excl_p} flows {excl_f} split {split}: {what}")

    name_keys = any(len(str(k)) > 1 for k in sl)
    if name_keys:  # a slice keyed by the dimension NAME: either refused, or applied like the letter
        sl = {{"Time": "t", "Product": "p", "Quality": "q"}[k]: v for k, v in sl.items()}
    mfa = build_sankey_system(spec)
    names = list(mfa.flows)
    exf = [names[i] for i in excl_f if i < len(names)]
    exp = [PROCS[i] for i in excl_p]
    shown_p = [p for p in PROCS[: spec["nproc"]] if p not in exp]
    color = {"default": "hsl(230,20,70)"}
    split_flow = None
    if split is not None and names:
        f0 = mfa.flows[names[0]]
        letter = split[0]
        if letter not in f0.dims.letters or letter in sl:
            return "n/a", None
        color[names[0]] = (NAMES[letter] if split[1] == "name" else letter, ["red", "green", "blue"])
        split_flow = names[0]
    expected = []
    for k, (s, d, a) in enumerate(spec["flows"]):
        n = names[k]
        if n in exf or PROCS[s] in exp or PROCS[d] in exp:
            continue
        m = model_of(mfa.flows[n].values, a)
        sel = {}
        for l, v in sl.items():
            if l in a:
                sel[l] = ("sub", "w", tuple(v)) if isinstance(v, list) else ("item", v)
        region, _ = R.select(m, sel)
        src, tgt = shown_p.index(PROCS[s]), shown_p.index(PROCS[d])
        if n == split_flow:
            letter = split[0]
            mm = R.marginal(region, (letter,))
            for it in ITEMS[letter]:
                expected.append((src, tgt, mm.data[(it,)], str(it)))
        else:
            expected.append((src, tgt, sum(region.data.values()), n))

    dn = {}
    if replot == "display":
        # display names: two processes share one label, the first flow and an excluded flow are renamed as well
        dn = {PROCS[1]: "Stage", PROCS[2]: "Stage"}
        if names:
            dn[names[0]] = "first flow"
        for f in exf:
            dn[f] = "hidden " + f
        expected = [(a, b, c, (dn.get(lbl, lbl) if lbl in names else lbl)) for a, b, c, lbl in expected]

    def go_():
        if replot == "display":
            pl = PlotlySankeyPlotter(mfa=mfa, slice_dict=slice_obj(sl), exclude_processes=exp, exclude_flows=exf, flow_color_dict=color, display_names=dn)
            return pl.plot()
        if name_keys:
            pl = PlotlySankeyPlotter(mfa=mfa, slice_dict={NAMES[k]: v for k, v in slice_obj(sl).items()}, exclude_processes=exp, exclude_flows=exf, flow_color_dict=color)
            return pl.plot()
        if replot is None:
            pl = PlotlySankeyPlotter(mfa=mfa, slice_dict=slice_obj(sl), exclude_processes=exp, exclude_flows=exf, flow_color_dict=color)
            return pl.plot()
        # the plotter is built and used with FEWER exclusions first, then the exclusion lists are extended
        # on the same object and it plots again
        pl = PlotlySankeyPlotter(mfa=mfa, slice_dict=slice_obj(sl), exclude_processes=exp[:1] if replot == "append" else [], exclude_flows=[], flow_color_dict=color)
        pl.plot()
        if replot == "append":
            for p in exp[1:]:
                pl.exclude_processes.append(p)
            for f in exf:
                pl.exclude_flows.append(f)
        else:
            pl.exclude_processes = list(exp)
            pl.exclude_flows = list(exf)
        return pl.plot()

    st, fig = attempt(go_)
    if st == "raised":
        if name_keys:
            return "name-key-refused", None
        return fail("raised", f"raised {fig}")
    tr = fig.data[0]
    link = tr.link
    got = list(zip([int(x) for x in (link.source or [])], [int(x) for x in (link.target or [])], [float(x) for x in (link.value or [])], [str(x) for x in (link.label or [])]))
    labels = list(tr.node.label or [])
    if labels != [dn.get(p, p) for p in shown_p]:
        return fail("nodes", f"nodes {labels}, shown processes {[dn.get(p, p) for p in shown_p]}")
    if len(got) != len(expected):
        return fail("links", f"{len(got)} links {got}, expected {len(expected)}: {expected}")
    for g, e in zip(got, expected):
        if g[:2] != e[:2]:
            return fail("link-ends", f"link {g[3]!r} runs node {g[0]} -> {g[1]} ({labels[g[0]] if 0 <= g[0] < len(labels) else '?'} -> {labels[g[1]] if 0 <= g[1] < len(labels) else '?'}), expected {e[0]} -> {e[1]}")
        if g[2] != e[2]:
            return fail("link-value", f"link {g[3]!r} has value {g[2]}, the flow's total after the slice is {e[2]}")
        if g[3] != e[3]:
            return fail("link-label", f"link labelled {g[3]!r}, expected {e[3]!r}")
    return "sankey-faithful", None


def sankey_specs(tier):
    for nproc in (3, 4):
        pool = []
        pairs = [(0, 1), (1, 2), (2, 0), (1, 1)] + ([(2, 3), (3, 1)] if nproc == 4 else [])
        for a, k in FLOW_POOL:
            pool.append((pairs[k % len(pairs)][0], pairs[k % len(pairs)][1], a))
        extra = [(pairs[(k + 1) % len(pairs)][0], pairs[(k + 1) % len(pairs)][1], a) for a, k in FLOW_POOL]
        allp = pool + (extra if tier == "thorough" else extra[:2])
        for n in (1, 2, 3):
            for sel in itertools.permutations(allp, n):
                if tier == "quick" and n == 3 and (hash_idx(sel) % 11):
                    continue
                if tier == "quick" and n == 2 and (hash_idx(sel) % 2):
                    continue
                yield dict(nproc=nproc, flows=[list(f) for f in sel])
                if (n == 1 or (tier == "thorough" and n == 2)) and len(sel[0][2]) >= 2:
                    for z in sel[0][2][:2]:
                        yield dict(nproc=nproc, flows=[list(f) for f in sel], zero=z)


def hash_idx(sel):
    s = 0
    for i, f in enumerate(sel):
        s = s * 31 + f[0] * 7 + f[1] * 3 + len(f[2]) + i
    return s


SLICES = [{}, {"Time": 2001}, {"t": 2001}, {"p": "p2"}, {"q": "q1"}, {"t": 2000, "p": "p1"}, {"p": ["p2"]}, {"t": [0, 2000]}, {"q": "q2", "t": 0}]
SPLITS = [None, ("t", "name"), ("p", "letter"), ("p", "name"), ("q", "letter"), ("t", "letter")]


def run_sankey_unit(u, rec):
    spec = u["spec"]
    nproc, nf = spec["nproc"], len(spec["flows"])
    pex = [list(c) for r in range(0, nproc) for c in itertools.combinations(range(nproc), r)]
    fex = [list(c) for r in range(0, min(2, nf) + 1) for c in itertools.combinations(range(nf), r)]
    n = u.get("seed", 0)
    for sl in SLICES:
        for ep in pex:
            for ef in fex:
                for split in SPLITS:
                    n += 1
                    if u["tier"] == "quick" and split is not None and (n % 3):
                        continue
                    if u["tier"] == "quick" and len(ep) >= 2 and len(ef) >= 1 and (n % 2):
                        continue
                    rec(*run_sankey_case(spec, sl, ep, ef, list(split) if split else None))
                    if u["tier"] == "thorough" or n % 7 == 0:
                        rec(*run_sankey_case(spec, sl, ep, ef, list(split) if split else None, "display"))
                    if (ep or ef) and (u["tier"] == "thorough" or n % 9 == 0):
                        rec(*run_sankey_case(spec, sl, ep, ef, list(split) if split else None, ("assign", "append")[n % 2]))


# ---- array plotters --------------------------------------------------------------------------------


def role_style(letter, style, pos):
    if style == "names" or (style == "mixed" and pos % 2 == 0):
        return NAMES[letter]
    return letter


def run_plot_case(backend, arr_dims, roles, style, xspec, chart):
    """roles: dict role -> letter for 'x', 'line', 'subplot' (line / subplot may be absent)"""
    from flodym import FlodymArray
    from flodym.export import PlotlyArrayPlotter, PyplotArrayPlotter

    case = dict(kind="plot", backend=backend, arr_dims=arr_dims, roles=roles, style=style, xspec=xspec, chart=chart)

    def fail(kind, what):
        return "fail", dict(case=case, tags=dict(kind=kind, plot=backend, chart=chart), what=f"{backend} {chart} plot of array over {arr_dims!r}, roles {roles} given by {style}, x array {xspec}: {what}")

    vals = fvals(arr_dims, 0)
    arr = FlodymArray(dims=DS(arr_dims), values=vals, name="quantity")
    m = model_of(vals, arr_dims)
    kw = dict(array=arr, intra_line_dim=role_style(roles["x"], style, 0), chart_type=chart)
    if "line" in roles:
        kw["linecolor_dim"] = role_style(roles["line"], style, 1)
    if "subplot" in roles:
        kw["subplot_dim"] = role_style(roles["subplot"], style, 2)
    mx = None
    if xspec is not None:
        xv = fvals(xspec, 5) / 8.0
        kw["x_array"] = FlodymArray(dims=DS(xspec), values=xv, name="xq")
        mx = model_of(xv, xspec)

    kw["title"] = "Scenario overview"
    decoy_fig = []

    def make():
        cls = PlotlyArrayPlotter if backend == "plotly" else PyplotArrayPlotter
        # another array was plotted before with the SAME title, and that figure is still open
        kw0 = dict(kw)
        kw0["array"] = FlodymArray(dims=DS(arr_dims), values=vals * 2.0 + 7.0, name="other quantity")
        try:
            decoy_fig.append(cls(**kw0).plot())
        except Exception:
            pass
        return cls(**kw).plot()

    st, fig = attempt(make)
    if backend == "pyplot":
        import matplotlib.pyplot as _plt

        for f0 in decoy_fig:
            if f0 is not fig:
                _plt.close(f0)
    if st == "raised":
        return fail("raised", f"raised {fig}")
    try:
        sub_items = ITEMS[roles["subplot"]] if "subplot" in roles else [None]
        line_items = ITEMS[roles["line"]] if "line" in roles else [None]
        x_items = ITEMS[roles["x"]]

        def want(sit, lit):
            ys, xs = [], []
            for xi in x_items:
                lab = []
                for l in arr_dims:
                    lab.append(xi if l == roles["x"] else (lit if l == roles.get("line") else sit))
                lab = tuple(lab)
                ys.append(m.data[lab])
                if mx is None:
                    xs.append(xi)
                else:
                    xs.append(mx.data[R.project(lab, tuple(arr_dims), mx.letters)])
            return xs, ys

        # ---- read the figure back as groups = [(subplot title, [(x data, y data, line label), ...]), ...]
        groups = []
        if backend == "plotly":
            per_axis = {}
            for tr in fig.data:
                per_axis.setdefault(tr.xaxis or "x", []).append(tr)
            titles = [a.text for a in (fig.layout.annotations or [])]

            def axis_no(a):
                return 0 if a == "x" else int(a[1:]) - 1

            for a in sorted(per_axis, key=axis_no):
                k = axis_no(a)
                groups.append((titles[k] if k < len(titles) else "", [(list(tr.x), list(tr.y), tr.name) for tr in per_axis[a]]))
        else:
            import matplotlib.pyplot as plt

            try:
                for ax in fig.axes:
                    if chart == "line":
                        objs = [(list(ln.get_xdata(orig=True)), list(ln.get_ydata(orig=True)), ln.get_label()) for ln in ax.lines]
                    else:
                        objs = []
                        for col in ax.collections:
                            off = col.get_offsets()
                            objs.append(([o[0] for o in off], [o[1] for o in off], col.get_label()))
                    if objs:
                        groups.append((ax.get_title(), objs))
            finally:
                plt.close(fig)
        if len(groups) != len(sub_items):
            return fail("lines", f"{len(groups)} subplot(s) with data for {len(sub_items)} subplot item(s)")

        def same_x(xd, xs):
            if backend == "pyplot" and chart != "line" and not all(isinstance(v, (int, float, np.integer, np.floating)) for v in xs):
                return True  # categorical scatter offsets are positions, not the items
            if [str(v) for v in xd] == [str(v) for v in xs]:
                return True
            try:
                return [float(v) for v in xd] == [float(v) for v in xs]
            except (TypeError, ValueError):
                return False

        def group_matches(objs, sit):
            """None if the group shows exactly the lines of subplot item sit, else a description"""
            if len(objs) != len(line_items):
                return f"{len(objs)} line(s) for {len(line_items)} line item(s)"
            left = list(objs)
            for lit in line_items:
                xs, ys = want(sit, lit)
                cand = [o for o in left if (lit is None or str(o[2]) == str(lit))]
                if not cand:
                    return f"no line labelled {lit!r} (labels {[o[2] for o in objs]})"
                o = cand[0]
                if [float(v) for v in o[1]] != ys:
                    return f"line {lit!r}: y = {[float(v) for v in o[1]]}, the array's entries are {ys}"
                if not same_x(o[0], xs):
                    return f"line {lit!r}: x = {list(o[0])}, expected {xs}"
                left.remove(o)
            return None

        used = set()
        for title, objs in groups:
            hits = [sit for sit in sub_items if sit not in used and group_matches(objs, sit) is None]
            if not hits:
                why = group_matches(objs, sub_items[0]) if len(sub_items) == 1 else "; ".join(f"as {sit!r}: {group_matches(objs, sit)}" for sit in sub_items[:2])
                kind = "x-data" if "x =" in str(why) else ("line-label" if "labelled" in str(why) else "y-data")
                return fail(kind, f"subplot titled {title!r} shows no subplot item's data: {why}")
            sit = hits[0]
            used.add(sit)
            if sit is not None and len(sub_items) > 1:
                if str(sit) not in str(title) or any(str(o) in str(title) for o in sub_items if o != sit and str(o) not in str(sit)):
                    return fail("subplot-title", f"the subplot showing the data of item {sit!r} is titled {title!r}")
    except Exception as e:  # reading the figure back failed: report as a violation of observability, with detail
        return fail("unreadable", f"figure could not be read back: {type(e).__name__}: {e}")
    return "plot-faithful", None


def plot_configs(tier):
    for n in (1, 2, 3):
        for arr_dims in itertools.permutations("tpq", n):
            arr_dims = "".join(arr_dims)
            role_sets = []
            if n == 1:
                role_sets.append({"x": arr_dims[0]})
            elif n == 2:
                for x, o in itertools.permutations(arr_dims, 2):
                    role_sets.append({"x": x, "line": o})
                    role_sets.append({"x": x, "subplot": o})
            else:
                for x, l, s in itertools.permutations(arr_dims, 3):
                    role_sets.append({"x": x, "line": l, "subplot": s})
            xspecs = [None] + ["".join(p) for k in range(1, n + 1) for p in itertools.permutations(arr_dims, k)]
            for roles in role_sets:
                for style in ("names", "letters", "mixed"):
                    if style == "mixed" and len(roles) < 2:
                        continue
                    for xs in xspecs:
                        yield arr_dims, roles, style, xs
    # a line dimension with 25 items that are numpy integers
    for arr_dims, roles in (("tg", {"x": "t", "line": "g"}), ("gt", {"x": "t", "line": "g"}), ("gtp", {"x": "t", "line": "g", "subplot": "p"})):
        for style in ("names", "letters"):
            yield arr_dims, roles, style, None


def bounds(tier):
    return dict(sankey_systems=sum(1 for _ in sankey_specs(tier)), slices=len(SLICES), splits=len(SPLITS), plot_configs=sum(1 for _ in plot_configs(tier)))


def units(tier, seed):
    out = [dict(kind="sankey", spec=s, tier=tier, seed=seed) for s in sankey_specs(tier)]
    cfgs = list(plot_configs(tier))
    for backend in ("plotly", "pyplot"):
        for i in range(0, len(cfgs), 40):
            out.append(dict(kind="plots", backend=backend, lo=i, hi=i + 40, tier=tier, seed=seed))
    return out


def run_unit(u):
    res = dict(evals=0, nontrivial=0, outcomes={}, fails=[], samples=[])

    def rec(oc, f):
        if oc == "n/a":
            return
        res["evals"] += 1
        res["nontrivial"] += 1
        res["outcomes"][oc] = res["outcomes"].get(oc, 0) + 1
        if f and len(res["fails"]) < 25:
            res["fails"].append(f)

    if u["kind"] == "sankey":
        run_sankey_unit(u, rec)
        if u["spec"]["flows"] == [[0, 1, ""], [1, 2, "t"]]:
            res["samples"].append(dict(spec=u["spec"], slice={"t": 2001}, exclude_processes=["sysenv"], meaning="flow without t listed before a flow over t: the second link's value must be the t=2001 entry, node indices counted among shown processes"))
        return res
    cfgs = list(plot_configs(u["tier"]))[u["lo"] : u["hi"]]
    charts = ("line", "scatter", "area") if u["backend"] == "plotly" else ("line", "scatter")
    for n, (arr_dims, roles, style, xs) in enumerate(cfgs):
        for ci, chart in enumerate(charts):
            if u["tier"] == "quick" and chart != "line" and (n + ci + u.get("seed", 0)) % 4:
                continue
            rec(*run_plot_case(u["backend"], arr_dims, roles, style, xs, chart))
    if u["lo"] == 0 and u["backend"] == "plotly":
        res["samples"].append(dict(backend="plotly", arr_dims="tpq", roles={"x": "t", "line": "q", "subplot": "p"}, style="letters", x_array="qt", meaning="one trace per (p item, q item); y = array[t, p, q] along t; x = x_array[q, t]"))
    return res


def replay(case):
    if case["kind"] == "sankey":
        oc, f = run_sankey_case(case["spec"], case["sl"], case["excl_p"], case["excl_f"], case["split"], case.get("replot"))
    else:
        oc, f = run_plot_case(case["backend"], case["arr_dims"], case["roles"], case["style"], case["xspec"], case["chart"])
    return [f] if f else []
