"""C10 - inflow-driven and stock-driven models are inverse; both solvers agree.

E1 over DSM configurations with a first-interval survival share >= 0.05 (decided by the closed-form
model).  A: inflow -> InflowDrivenDSM -> stock -> StockDrivenDSM (manual, lapack) must return the
inflow, the same outflow and the same cohort tables.  B: prescribed stock (incl. decreasing ones,
exact zeros, integer dtype) -> StockDrivenDSM -> inflow -> InflowDrivenDSM must reproduce the
prescribed stock, and the stock-driven model must leave its prescribed stock untouched.
C: manual and lapack agree on everything.
"""

from mc import dsm, dsm_impl
from mc.util import attempt
from checks import c03

PROPERTY = "C10"
LEVEL = "exploration"
ENGINE = "E1-enumeration"
TECHNIQUE = "bounded exhaustive enumeration of DSM configurations; round-trip and solver-agreement relations between runs of the real code"
RULE = (
    "complete enumeration of (time grids with steps in {1,2,5}, 3-5 items; quick: 13 representatives) x (13 "
    "lifetime parametrisations, kept when every first-interval survival share >= 1e-4 and the rounding amplification bound stays below 1e-3; the tolerance follows that bound) x (quadratures) x (extra "
    "dims: none, single-item p, p, p x q) x (scalar / per-label-and-cohort parameters) x (A: non-negative inflows "
    "incl. every unit impulse; B: prescribed stocks increasing, decreasing, hump, exact zero in a middle year, "
    "exact zeros at the end, integer dtype, each unit impulse) x (solver manual / lapack). Non-trivial = "
    "well-conditioned configuration actually computed. Distinct by construction."
    " Also: Fortran-ordered arrays handed in, sub-annual grids, 18001 and 70000 labels."
)
ASSUMPTIONS = [
    "tolerance max(1e-9, 1e-14 x product of reciprocal first-interval survival shares) relative; measured residual ~2e-15 on well-conditioned tables",
    "finite driver / parameter alphabets; grids up to 5 items",
]
LEVEL_TEXT = (
    "For every bounded configuration the two model classes are run against each other in both directions with both "
    "solvers on the real code, and inflow, outflow, stock and both cohort tables are compared entry by entry."
)
LEVEL_NOTE = "Differential oracle between implementation runs plus the closed-form model for the conditioning filter. Finite alphabets; <= 5 time steps."
TOL = 1e-9
EXTRAS = ([], [("p", 1)], [("p", 2)], [("p", 2), ("q", 2)])
SHAPES = {0: [("scalar", "scalar"), ("t", "scalar"), ("T", "scalar")], 1: [("scalar", "scalar"), ("tp", "p")], 2: [("scalar", "scalar"), ("pt", "p")], 3: [("scalar", "scalar"), ("qp", "tq")]}


def bounds(tier):
    return c03.bounds(tier)


def units(tier, seed):
    return c03.units(tier, seed) + [dict(large=True, n_items=k, tier=tier) for k in (18001, 70000)]


def run_large_case(n_items, dist):
    """MANY labels (more than 2**14 and 2**16, not a multiple of either): inflow-driven -> stock-driven (both solvers) ->
    the original inflow, compared as whole arrays"""
    import numpy as np

    import flodym

    case = dict(large=True, n_items=n_items, dist=dist)
    grid = (2000, 2001, 2003, 2004)
    extra = [("p", n_items)]
    dims = dsm_impl.make_dims(grid, extra)
    j = np.arange(n_items)
    prms = {"NormalLifetime": dict(mean=flodym.FlodymArray(dims=dims[("p",)], values=3.0 + (j % 97) / 50.0), std=1.0), "WeibullLifetime": dict(weibull_shape=1.5, weibull_scale=flodym.FlodymArray(dims=dims[("p",)], values=4.0 + (j % 89) / 40.0))}[dist]
    inflow = 5.0 + ((3 * np.arange(4)[:, None] + j[None, :]) % 7)

    def go():
        fwd = flodym.InflowDrivenDSM(dims=dims, lifetime_model=getattr(flodym, dist)(dims=dims, **prms), inflow=flodym.StockArray(dims=dims, values=inflow.copy()))
        fwd.compute()
        scale = float(np.abs(fwd.stock.values).max())
        for solver in ("manual", "lapack"):
            back = flodym.StockDrivenDSM(dims=dims, lifetime_model=getattr(flodym, dist)(dims=dims, **prms), stock=flodym.StockArray(dims=dims, values=fwd.stock.values.copy()), solver=solver)
            back.compute()
            for nm, a, b in (("inflow", inflow, back.inflow.values), ("outflow", fwd.outflow.values, back.outflow.values), ("stock by cohort", fwd.get_stock_by_cohort(), back.get_stock_by_cohort()), ("outflow by cohort", fwd.get_outflow_by_cohort(), back.get_outflow_by_cohort())):
                bad = np.argwhere(~(np.abs(a - b) <= 1e-9 * scale))
                if len(bad):
                    idx = tuple(int(x) for x in bad[0])
                    return f"{nm} of the inflow-driven model vs stock-driven/{solver} differs at {idx}: {float(a[idx])!r} vs {float(b[idx])!r} ({len(bad)} entries)"
        return None

    st, d = attempt(go)
    if st == "raised" or d:
        return "fail", dict(case=case, tags=dict(mode="A", dist=dist, variant="large"), what=f"A {dist}, grid {list(grid)}, {n_items} labels: {('raised ' + str(d)) if st == 'raised' else d}")
    return "inverse-and-solvers-agree (large)", None


TOL_NOW = [1e-9]  # tolerance of the current case (conditioning-aware, see run_case)


def cmp_tables(a, b, scale, what):
    for k, v in a.items():
        if not abs(v - b[k]) <= TOL_NOW[0] * scale:
            return f"{what} differs at {k}: {v!r} vs {b[k]!r}"
    return None


def run_case(mode, grid, li, quad, ei, pair, drv, variant):
    lt = dsm.LT[li]
    extra = [tuple(e) for e in EXTRAS[ei]]
    grid = tuple(grid)
    n = len(grid)
    labs = dsm_impl.labels(extra)
    shapes = c03.shapes_dict(lt, pair)
    case = dict(mode=mode, grid=list(grid), lt=li, quad=list(quad), ei=ei, pair=list(pair), drv=drv, variant=variant)
    tags0 = dict(mode=mode, grid=dsm.grid_kind(grid), dist=lt[0], variant=variant)

    def fail(k, what):
        t = dict(tags0)
        t["kind"] = k
        return "fail", dict(case=case, tags=t, what=f"{mode} {lt[0]}{lt[1]} shapes {shapes}, grid {list(grid)} extra {extra} quad {quad} driver {drv} ({variant}): {what}")

    sf_m, _ = dsm.sf_table(grid, lt[0], dsm_impl.prm_fn(lt[1], shapes, extra), quad[0], quad[1], labs)
    if any(sf_m[(c, c, lab)] is None or sf_m[(c, c, lab)] < 1e-4 for c in range(n) for lab in labs):
        return "skipped-ill-conditioned", None
    # forward substitution amplifies rounding by at most the product of the reciprocal diagonal shares:
    # the tolerance follows that bound (1e-9 for well-conditioned tables), cases beyond 1e-3 are skipped
    growth = 1.0
    for c in range(n):
        growth *= 1.0 / min(sf_m[(c, c, lab)] for lab in labs)
    TOL_NOW[0] = max(1e-9, 1e-14 * growth)
    if TOL_NOW[0] > 1e-3:
        return "skipped-ill-conditioned", None
    d = dsm_impl.driver_series(drv, n, extra)
    int_dtype = variant == "int"
    pass_arrays = "F" if variant == "arraysF" else (variant == "arrays")
    past = variant == "past"  # every model was computed before with other parameters and another driver

    def go():
        if mode == "A":
            fwd = dsm_impl.run_stock("inflow", grid, lt, quad, extra, shapes, d, pass_arrays=pass_arrays, recompute=past)
            if variant == "convert":
                # the stock-driven model is obtained by converting the computed inflow-driven one
                import flodym

                back = {}
                for s in ("manual", "lapack"):
                    src = dsm_impl.run_stock("inflow", grid, lt, quad, extra, shapes, d)["obj"]
                    conv = src.to_stock_type(flodym.StockDrivenDSM, solver=s)
                    conv.compute()
                    back[s] = dict(
                        stock=dsm_impl.series_from_nd(conv.stock.values, extra), inflow=dsm_impl.series_from_nd(conv.inflow.values, extra),
                        outflow=dsm_impl.series_from_nd(conv.outflow.values, extra), sbc=dsm_impl.table_from_nd(conv.get_stock_by_cohort(), extra),
                        obc=dsm_impl.table_from_nd(conv.get_outflow_by_cohort(), extra),
                    )
                return fwd, back
            back = {s: dsm_impl.run_stock("stock-" + s, grid, lt, quad, extra, shapes, fwd["stock"], pass_arrays=pass_arrays, recompute=past) for s in ("manual", "lapack")}
            return fwd, back
        back = {s: dsm_impl.run_stock("stock-" + s, grid, lt, quad, extra, shapes, d, int_dtype=int_dtype, pass_arrays=pass_arrays, recompute=past) for s in ("manual", "lapack")}
        fwd = {s: dsm_impl.run_stock("inflow", grid, lt, quad, extra, shapes, back[s]["inflow"], recompute=past) for s in ("manual", "lapack")}
        return fwd, back

    st, r = attempt(go)
    if st == "raised":
        return fail("raised", f"raised {r}")
    fwd, back = r
    if mode == "A":
        scale = dsm_impl.scale_of(fwd, grid)
        for s in ("manual", "lapack"):
            for name in ("inflow", "outflow", "stock", "sbc", "obc"):
                dd = cmp_tables(fwd[name], back[s][name], scale, f"{name} of inflow-driven vs stock-driven/{s}")
                if dd:
                    return fail("roundtrip-" + name, dd)
            dd = cmp_tables(d, back[s]["inflow"], scale, f"original inflow vs inflow recovered by stock-driven/{s}")
            if dd:
                return fail("roundtrip-inflow", dd)
    else:
        scale = max(dsm_impl.scale_of(back["manual"], grid), dsm_impl.scale_of(back["lapack"], grid))
        if not scale < 1e12 * (2.0 ** 30 if "@huge" in drv else 1.0):
            return "skipped-ill-conditioned", None
        for s in ("manual", "lapack"):
            dd = cmp_tables(d, back[s]["driver_after"], 0.0, f"prescribed stock vs stock held by stock-driven/{s} after compute")
            if dd:
                return fail("driver-modified", dd)
            dd = cmp_tables(d, fwd[s]["stock"], scale, f"prescribed stock vs stock reproduced from the inflow of stock-driven/{s}")
            if dd:
                return fail("converse-stock", dd)
            for name in ("outflow", "sbc", "obc"):
                dd = cmp_tables(fwd[s][name], back[s][name], scale, f"{name} of stock-driven/{s} vs inflow-driven")
                if dd:
                    return fail("converse-" + name, dd)
    for name in ("inflow", "outflow", "stock", "sbc", "obc"):
        dd = cmp_tables(back["manual"][name], back["lapack"][name], scale, f"{name} manual vs lapack")
        if dd:
            return fail("solvers-" + name, dd)
    return "inverse-and-agree", None


DRV_A = ["pos", "pos2", "pos@tiny", "pos2@huge"]
DRV_B = ["inc", "dec", "hump", "mid0", "tail0", "hump@tiny", "inc@huge"]


def run_unit(u):
    tier = u["tier"]
    if u.get("large"):
        res = dict(evals=0, nontrivial=0, outcomes={}, fails=[], samples=[])
        for dist in ("NormalLifetime", "WeibullLifetime"):
            oc, f = run_large_case(u["n_items"], dist)
            res["evals"] += 1
            res["nontrivial"] += 1
            res["outcomes"][oc] = res["outcomes"].get(oc, 0) + 1
            if f:
                res["fails"].append(f)
        return res
    grid, li = u["grid"], u["lt"]
    n = len(grid)
    res = dict(evals=0, nontrivial=0, outcomes={}, fails=[], samples=[])
    quads = c03.QUADS_Q if tier == "quick" else dsm.QUADS
    for ei in range(len(EXTRAS)):
        for pi, pair in enumerate(SHAPES[ei]):
            for qi, quad in enumerate(quads):
                if tier == "quick" and ei == 3 and qi not in (1, 3):
                    continue
                if tier == "quick" and ei == 1 and (pi > 0 or qi in (0, 2)):
                    continue
                if tier == "quick" and ei == 0 and pi > 0 and qi in (0, 2):
                    continue
                if tier == "quick" and ei == 0 and pi == 2 and qi != 1:
                    continue
                imps = [f"imp:{t}:0" for t in range(n)] if tier == "thorough" else ["imp:0:0", f"imp:{n-1}:0"]
                jobs = [("A", drv, "plain") for drv in DRV_A + imps]
                jobs += [("B", drv, "plain") for drv in DRV_B + imps]
                if qi in (0, 1):
                    jobs += [("B", drv, "int") for drv in ("inc", "dec", "hump")] + [("A", "pos", "arrays"), ("B", "dec", "arrays"), ("A", "pos2", "arraysF"), ("B", "hump", "arraysF"), ("A", "pos2", "past"), ("B", "hump", "past")]
                if qi in (0, 3):
                    jobs += [("A", "pos", "convert")]
                for mode, drv, variant in jobs:
                    oc, f = run_case(mode, grid, li, quad, ei, pair, drv, variant)
                    res["evals"] += 1
                    res["nontrivial"] += 0 if oc.startswith("skipped") else 1
                    res["outcomes"][oc] = res["outcomes"].get(oc, 0) + 1
                    if f:
                        res["fails"].append(f)
    if li == 6 and grid == [2000, 2002, 2003, 2008, 2010]:
        res["samples"].append(dict(mode="B", grid=grid, lifetime=list(dsm.LT[6]), quad=["middle", 1], extra=[["p", 2]], driver="dec", meaning="decreasing prescribed stock -> stock-driven (manual, lapack) -> inflow (partly negative) -> inflow-driven reproduces the stock; solvers agree"))
    return res


def replay(case):
    if case.get("large"):
        oc, f = run_large_case(case["n_items"], case["dist"])
        return [f] if f else []
    oc, f = run_case(case["mode"], case["grid"], case["lt"], tuple(case["quad"]), case["ei"], tuple(case["pair"]), case["drv"], case["variant"])
    return [f] if f else []
