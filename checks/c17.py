"""C17 - recomputing a stock reflects its current inputs only.

E2: breadth-first search over histories of {set driver version, set_prms version, compute, read sf,
read pdf} on one live stock object per (class/solver, lifetime class, time grid), from a blank and
from a ready initial state; plus the system-level loop (a system built from definitions whose
compute() calls set_prms and stock.compute(), as in a scenario / sensitivity loop).  After EVERY
compute the results are compared with a freshly built object given the current inputs (state
reached through a history vs state reached from the initial state); a compute that must fail has
to fail on both and change nothing.
"""

import numpy as np

from mc import bfs, dsm, dsm_impl
from mc.util import attempt, digest

PROPERTY = "C17"
LEVEL = "model_checking"
ENGINE = "E2-bfs"
TECHNIQUE = "explicit-state BFS over set-driver / set_prms / compute / read-table histories on live stock objects, differential oracle against a freshly built object"
RULE = (
    "BFS over histories of the alphabet {driver := version 0..3 (positive; with exact zeros where version 0 is "
    "non-zero; impulse; version 0 changed by a relative 2^-24), set_prms := one of 4 scalar versions (each parameter "
    "changed alone and both), a per-label FlodymArray version or full-dimensional FlodymArrays, in-place edit of the "
    "arrays that were handed to set_prms, compute, read sf, read pdf} for every (stock class/solver incl. the flow-driven "
    "stock) x (lifetime class) x (unit and uneven time grid) x (extra dims: p with 2 items, none, p with a single item) x (1 and 3 quadrature points), drivers set entry by entry, through a[...] = ndarray and through set_values, from the blank state (nothing set) and the ready "
    "state (driver 0, parameters 0); and over {parameter := version, system.compute()} for systems built from "
    "definitions that hold TWO stocks of one class and dims with different lifetimes, each compared with a standalone stock. State key = digest of EVERY array reachable from the stock object (public and private "
    "attributes alike, so caches are part of the state) + input versions. Non-trivial transition = a compute "
    "(compared with a fresh object) or a transition into a new state."
    " Also: replacing the lifetime model object, parameters first given as integers, inadmissible parameters tried and refused, and after every set_prms the held parameters compared with a fresh model's."
)
ASSUMPTIONS = [
    "finite input alphabets (5 driver versions, 9 parameter versions incl. integer, inadmissible and half-invalid ones, 3 lifetime-model swaps); full alphabet (21 operations) to depth 3 (thorough: 4 on the uneven grid with two labels), a 13-operation sub-alphabet to depth 4-5",
    "results compared with 1e-12 relative tolerance against a fresh object (same code, no history) given the current driver and the lifetime parameters the model holds at that moment (read through the public prms property)",
    "changing parameters by assigning attributes directly (not through set_prms) is outside the statement",
]
LEVEL_TEXT = (
    "All histories up to the depth bound are executed on the real objects; after every compute all results (stock, "
    "inflow, outflow, both cohort tables) must equal those of a freshly constructed object with the same current "
    "inputs. The state key hashes every array reachable from the object, so hidden caches cannot be merged away."
)
LEVEL_NOTE = "Differential oracle (history vs fresh); exact state key over the object's full array content. Histories longer than the bound and inputs outside the alphabet are not covered."

GRIDS = {"unit": (2000, 2001, 2002, 2003), "uneven": (2000, 2002, 2007, 2008)}
EXTRA = [("p", 2)]  # default; units also run time-only dims and a single-item dimension (see EXTRAS)
EXTRAS = {"p2": [("p", 2)], "none": [], "p1": [("p", 1)]}
NPTS = 1  # n_pts_per_interval of the lifetime models of the current unit (1 or 3)
PRM_VERSIONS = {
    "NormalLifetime": [dict(mean=3.0, std=1.0), dict(mean=1.5, std=1.0), dict(mean=3.0, std=0.5), dict(mean=1.5, std=0.5)],
    "FoldedNormalLifetime": [dict(mean=3.0, std=1.0), dict(mean=1.5, std=1.0), dict(mean=3.0, std=2.0), dict(mean=1.5, std=2.0)],
    "LogNormalLifetime": [dict(mean=3.0, std=1.0), dict(mean=1.5, std=1.0), dict(mean=3.0, std=2.0), dict(mean=1.5, std=2.0)],
    "WeibullLifetime": [dict(weibull_shape=2.0, weibull_scale=3.0), dict(weibull_shape=1.2, weibull_scale=3.0), dict(weibull_shape=2.0, weibull_scale=1.5), dict(weibull_shape=1.2, weibull_scale=1.5)],
    "FixedLifetime": [dict(mean=2.5), dict(mean=1.5), dict(mean=0.7), dict(mean=3.5)],
}
DRV = {"inflow": ["pos", "mid0", "imp:1:0", "pos~", "zero"], "stock": ["hump", "tail0", "inc", "hump~", "zero"], "simple": ["pos", "mid0", "imp:1:0", "pos~", "zero"]}


def drv_series(name, n, extra):
    """a trailing ~ = the same driver changed by a relative 2**-24 (a finite-difference step)"""
    if name == "zero":  # an exactly all-zero driver (results, cohort tables included, must be those of a fresh stock)
        return {k: 0.0 for k in dsm_impl.driver_series("pos", n, extra)}
    if name.endswith("~"):
        return {k: v * (1.0 + 2.0 ** -24) for k, v in dsm_impl.driver_series(name[:-1], n, extra).items()}
    return dsm_impl.driver_series(name, n, extra)
NAMES = ("stock", "inflow", "outflow")


def ops_for(kind, dist, reduced=False):
    if reduced:  # the sub-alphabet used for the deeper searches
        ops = [dict(op="drv", v=k) for k in range(3)]
        if kind != "simple":
            ops += [dict(op="prm", v=0), dict(op="prm", v=1), dict(op="prm", v="A"), dict(op="prm", v="F"), dict(op="prm", v="N"), dict(op="prm", v="H"), dict(op="scribble-param"), dict(op="read", what="sf"), dict(op="swap-lm", v=1, how="ctor")]
        else:
            ops += [dict(op="drv2", v=k) for k in range(2)]
        ops.append(dict(op="compute"))
        return ops
    ops = [dict(op="drv", v=k) for k in range(5)]
    if kind != "simple":
        ops += [dict(op="prm", v=k) for k in range(4)] + [dict(op="prm", v="A"), dict(op="prm", v="F"), dict(op="prm", v="I"), dict(op="prm", v="N"), dict(op="prm", v="H"), dict(op="scribble-param")]
        ops += [dict(op="read", what="sf"), dict(op="read", what="pdf")]
        # the stock is handed ANOTHER lifetime model object (parameters given to the constructor / set afterwards)
        ops += [dict(op="swap-lm", v=1, how="ctor"), dict(op="swap-lm", v=2, how="set"), dict(op="swap-lm", v=0, how="set")]
    else:
        ops += [dict(op="drv2", v=k) for k in range(2)]
    ops.append(dict(op="compute"))
    return ops


class St:
    pass


PRM_INT = {"NormalLifetime": dict(mean=3, std=1), "FoldedNormalLifetime": dict(mean=3, std=1), "LogNormalLifetime": dict(mean=3, std=1), "WeibullLifetime": dict(weibull_shape=2, weibull_scale=3), "FixedLifetime": dict(mean=2)}
PRM_BAD = {"NormalLifetime": dict(mean=-3.0, std=1.0), "FoldedNormalLifetime": dict(mean=-3.0, std=1.0), "LogNormalLifetime": dict(mean=-3.0, std=1.0), "WeibullLifetime": dict(weibull_shape=-2.0, weibull_scale=3.0), "FixedLifetime": dict(mean=-2.5)}


def prm_kwargs(dist, v, dims):
    if v == "I":  # whole numbers given as Python ints
        return dict(PRM_INT[dist])
    if v == "H":  # the LAST parameter cannot be cast (wrong shape): the call fails half-way
        kw = dict(PRM_VERSIONS[dist][1])
        import numpy as _np

        kw[list(kw)[-1]] = _np.ones((7, 7, 7))
        return kw
    if v == "N":  # an inadmissible value (a sensitivity loop may try it and catch the error)
        return dict(PRM_BAD[dist])
    if v in ("A", "F"):
        # A: per-label (or per-cohort) FlodymArray for the first parameter, scalar for the second
        # F: FlodymArrays over the model's full dims in the model's own order for every parameter
        base = PRM_VERSIONS[dist][0 if v == "A" else 3]
        names = list(base)
        letters = [l for l, _ in EXTRA]
        shape = (letters[0] if letters else "t") if v == "A" else "t" + "".join(letters)
        kw = {names[0]: dsm_impl.make_param(dims, names[0], base, shape, EXTRA, dims[0].len)}
        for nm in names[1:]:
            kw[nm] = base[nm] if v == "A" else dsm_impl.make_param(dims, nm, base, shape, EXTRA, dims[0].len)
        return kw
    return dict(PRM_VERSIONS[dist][v])


def make_obj(kind, dist, grid, drv, prm, drv2=None):
    """fresh object with the given current inputs (None = not set)"""
    import flodym

    dims = dsm_impl.make_dims(grid, EXTRA)
    n = len(grid)
    if kind == "simple":
        s = flodym.SimpleFlowDrivenStock(dims=dims)
        if drv is not None:
            dsm_impl.fill(s.inflow, drv_series(DRV["simple"][drv], n, EXTRA), EXTRA)
        if drv2 is not None:
            dsm_impl.fill(s.outflow, dsm_impl.driver_series(("pos2", "inc")[drv2], n, EXTRA), EXTRA)
        return s
    lm = getattr(flodym, dist)(dims=dims, n_pts_per_interval=NPTS)
    if prm is not None:
        lm.set_prms(**prm_kwargs(dist, prm, dims))
    if kind == "inflow":
        s = flodym.InflowDrivenDSM(dims=dims, lifetime_model=lm)
        which = s.inflow
        key = "inflow"
    else:
        s = flodym.StockDrivenDSM(dims=dims, lifetime_model=lm, solver=kind.split("-")[1])
        which = s.stock
        key = "stock"
    if drv is not None:
        dsm_impl.fill(which, drv_series(DRV[key][drv], n, EXTRA), EXTRA)
    return s


def results(s, kind):
    out = {nm: np.array(getattr(s, nm).values, dtype=float, copy=True) for nm in NAMES}
    if kind != "simple":
        out["sbc"] = np.array(s.get_stock_by_cohort(), dtype=float, copy=True)
        out["obc"] = np.array(s.get_outflow_by_cohort(), dtype=float, copy=True)
    return out


def deep_arrays(obj, seen=None, depth=0):
    """digest material: every ndarray reachable from a pydantic object (public + private attrs)"""
    if seen is None:
        seen = set()
    out = []
    if id(obj) in seen or depth > 6:
        return out
    seen.add(id(obj))
    if isinstance(obj, np.ndarray):
        return [(obj.shape, str(obj.dtype), obj.tobytes())]
    if isinstance(obj, (str, int, float, bool, type(None), type)):
        return [repr(obj)]
    if isinstance(obj, dict):
        for k in sorted(obj, key=repr):
            out.append(repr(k))
            out += deep_arrays(obj[k], seen, depth + 1)
        return out
    if isinstance(obj, (list, tuple)):
        for v in obj:
            out += deep_arrays(v, seen, depth + 1)
        return out
    d = getattr(obj, "__dict__", None)
    if d:
        out += deep_arrays(d, seen, depth + 1)
    p = getattr(obj, "__pydantic_private__", None)
    if p:
        out += deep_arrays(p, seen, depth + 1)
    return out


def build_state(kind, dist, grid, start):
    st = St()
    st.kind, st.dist, st.grid = kind, dist, grid
    if start == "ready":
        st.drv, st.prm, st.drv2 = 0, (0 if kind != "simple" else None), (0 if kind == "simple" else None)
    else:
        st.drv, st.prm, st.drv2 = None, None, None
    st.obj = make_obj(kind, dist, grid, st.drv, st.prm, st.drv2)
    return st


def apply_op(st, op, check):
    s = st.obj
    n = len(st.grid)
    desc = f"{op}"

    def fail(kind, what):
        return "fail", dict(case={}, tags=dict(kind=kind, cls=st.kind, dist=st.dist), what=f"{st.kind} stock with {st.dist} on grid {list(st.grid)} after {desc}: {what}")

    if op["op"] == "drv":
        key = "stock" if st.kind.startswith("stock") else "inflow"
        name = DRV["stock" if key == "stock" else ("simple" if st.kind == "simple" else "inflow")][op["v"]]
        arr = getattr(s, key)
        route = op["v"] % 3
        if route == 0:  # entry by entry into the existing buffer
            dsm_impl.fill(arr, drv_series(name, n, EXTRA), EXTRA)
        else:  # through the public whole-array routes, which may install a new buffer
            nd = np.zeros(tuple(arr.dims.shape))
            for (t, lab), v in drv_series(name, n, EXTRA).items():
                nd[(t,) + lab] = v
            if route == 1:
                arr[...] = nd
            else:
                arr.set_values(nd)
        st.drv = op["v"]
        return "driver-set", None
    if op["op"] == "drv2":
        dsm_impl.fill(s.outflow, dsm_impl.driver_series(("pos2", "inc")[op["v"]], n, EXTRA), EXTRA)
        st.drv2 = op["v"]
        return "driver-set", None
    if op["op"] == "prm":
        kw = prm_kwargs(st.dist, op["v"], s.dims)
        stt, info = attempt(lambda: s.lifetime_model.set_prms(**kw))
        st.prm = op["v"]
        st.handed = [v for v in kw.values() if hasattr(v, "values")]
        if stt == "raised":
            if op["v"] in ("N", "H"):
                return "prms-refused", None  # whatever the model holds now, the next compute is judged by it
            return fail("raised", f"set_prms raised {info}")
        if check:
            # the model holds what a FRESH model given the same parameters holds
            import flodym

            fresh_lm = getattr(flodym, st.dist)(dims=s.dims, n_pts_per_interval=NPTS)
            stf, _ = attempt(lambda: fresh_lm.set_prms(**prm_kwargs(st.dist, op["v"], s.dims)))
            if stf == "ok":
                for nm, v in fresh_lm.prms.items():
                    h = s.lifetime_model.prms.get(nm)
                    if h is None or np.asarray(h).shape != np.asarray(v).shape or not np.array_equal(np.asarray(h, dtype=float), np.asarray(v, dtype=float)):
                        return fail("held-differs", f"after set_prms (version {op['v']}) the model holds {nm} = {np.asarray(h).ravel()[:4]} (dtype {getattr(h, 'dtype', None)}), a fresh model given the same parameters holds {np.asarray(v).ravel()[:4]}")
        return "prms-set", None
    if op["op"] == "swap-lm":
        import flodym

        kw = prm_kwargs(st.dist, op["v"], s.dims)

        def swap():
            if op["how"] == "ctor":
                lm = getattr(flodym, st.dist)(dims=s.dims, n_pts_per_interval=NPTS, **kw)
            else:
                lm = getattr(flodym, st.dist)(dims=s.dims, n_pts_per_interval=NPTS)
                lm.set_prms(**kw)
            s.lifetime_model = lm

        stt, info = attempt(swap)
        if stt == "raised":
            return fail("raised", f"assigning another lifetime model raised {info}")
        st.prm = op["v"]
        st.handed = []
        return "lifetime-model-replaced", None
    if op["op"] == "scribble-param":
        # the user keeps working with the arrays that were handed to set_prms (in-place edit)
        for a in getattr(st, "handed", []):
            a.values[...] = a.values + 0.5
        return "param-array-edited", None
    if op["op"] == "read":
        stt, info = attempt(lambda: getattr(s.lifetime_model, op["what"]))
        if st.prm is None:
            return ("read-refused" if stt == "raised" else "read-without-prms"), None
        if st.prm in ("N", "H") and stt == "raised":
            return "read-refused", None  # inadmissible parameters: refusing the table is right
        if stt == "raised":
            return fail("raised", f"reading {op['what']} raised {info}")
        return "table-read", None
    # compute
    before = results(s, st.kind)
    stt, info = attempt(lambda: s.compute())
    if not check:
        return "computed", None
    # a freshly built stock with the same inputs: the current driver and the lifetime parameters the
    # model HOLDS at this moment (read through the public `prms`)
    fresh = make_obj(st.kind, st.dist, st.grid, st.drv, None, st.drv2)
    refused_early = None
    if st.kind != "simple":
        held = s.lifetime_model.prms
        if all(v is not None for v in held.values()):
            stp, infop = attempt(lambda: fresh.lifetime_model.set_prms(**{nm: np.array(v, dtype=float, copy=True) for nm, v in held.items()}))
            if stp == "raised":
                refused_early = infop  # a fresh object refuses these parameters outright
    stf, infof = attempt(lambda: fresh.compute()) if refused_early is None else ("raised", refused_early)
    if stf == "raised":
        if stt != "raised":
            return fail("must-raise", f"compute succeeded although a fresh stock with the same inputs refuses ({infof})")
        after = results(s, st.kind)
        for nm in before:
            if not np.array_equal(before[nm], after[nm], equal_nan=True):
                return fail("changed-on-error", f"the failed compute changed {nm}")
        return "compute-refused", None
    if stt == "raised":
        return fail("raised", f"compute raised {info} although a fresh stock with the same inputs computes")
    got, want = results(s, st.kind), results(fresh, st.kind)
    scale = max(1.0, max(float(np.nanmax(np.abs(v))) if v.size else 0.0 for v in want.values()))
    for nm in want:
        if got[nm].shape != want[nm].shape or not np.allclose(got[nm], want[nm], rtol=0, atol=1e-12 * scale, equal_nan=True):
            idx = np.unravel_index(int(np.nanargmax(np.abs(got[nm] - want[nm]))), want[nm].shape) if got[nm].shape == want[nm].shape else None
            return fail("stale", f"{nm} differs from a freshly built stock with the same inputs (driver v{st.drv}, parameters v{st.prm}) at {idx}: {got[nm][idx] if idx else got[nm].shape!r} vs {want[nm][idx] if idx else want[nm].shape!r}")
    return "compute-equals-fresh", None


def canon(st):
    return digest(st.drv, st.prm, st.drv2, *deep_arrays(st.obj))


# ---- system-level loop ----------------------------------------------------------------------------


def make_system(dist, grid, solver_kind):
    import flodym
    from flodym import MFADefinition, DimensionDefinition, FlowDefinition, StockDefinition, ParameterDefinition

    names = list(PRM_VERSIONS[dist][0])
    n = len(grid)
    dims = dsm_impl.make_dims(grid, EXTRA)

    class Reader(flodym.DataReader):
        def read_dimension(self, d):
            return dims[d.letter]

        def read_parameter_values(self, parameter_name, dims):
            return flodym.Parameter(dims=dims, name=parameter_name)

    cls = flodym.InflowDrivenDSM if solver_kind == "inflow" else flodym.StockDrivenDSM
    sd = dict(name="use", dim_letters=("t", "p"), subclass=cls, lifetime_model_class=getattr(flodym, dist), process="use")
    if solver_kind != "inflow":
        sd["solver"] = solver_kind.split("-")[1]
    defn = MFADefinition(
        dimensions=[DimensionDefinition(name="Time", letter="t", dtype=int), DimensionDefinition(name="Product", letter="p", dtype=str)],
        processes=["sysenv", "use"],
        flows=[FlowDefinition(from_process="sysenv", to_process="use", dim_letters=("t", "p")), FlowDefinition(from_process="use", to_process="sysenv", dim_letters=("t", "p"))],
        stocks=[StockDefinition(**sd), StockDefinition(**dict(sd, name="use2"))],
        parameters=[ParameterDefinition(name="driver", dim_letters=("t", "p"))] + [ParameterDefinition(name=nm, dim_letters=("p",)) for nm in names] + [ParameterDefinition(name=nm + "_2", dim_letters=("p",)) for nm in names],
    )

    class Sys(flodym.MFASystem):
        def compute(self):
            st, st2 = self.stocks["use"], self.stocks["use2"]
            # all parameters are set first, then everything is computed (two stocks of one class)
            st.lifetime_model.set_prms(**{nm: self.parameters[nm] for nm in names})
            st2.lifetime_model.set_prms(**{nm: self.parameters[nm + "_2"] for nm in names})
            for x in (st, st2):
                if solver_kind == "inflow":
                    x.inflow[...] = self.parameters["driver"]
                else:
                    x.stock[...] = self.parameters["driver"]
            st.compute()
            st2.compute()
            self.flows["sysenv => use"][...] = st.inflow
            self.flows["use => sysenv"][...] = st.outflow

    return Sys.from_data_reader(defn, Reader())


def sys_set(mfa, dist, solver_kind, drv, prm, grid):
    n = len(grid)
    key = "inflow" if solver_kind == "inflow" else "stock"
    dsm_impl.fill(mfa.parameters["driver"], drv_series(DRV[key][drv], n, EXTRA), EXTRA)
    base = PRM_VERSIONS[dist][prm]
    for k, nm in enumerate(base):
        mfa.parameters[nm].values[...] = [base[nm], base[nm] + (0.25 if k == 0 else 0.125)]
        mfa.parameters[nm + "_2"].values[...] = [base[nm] + 0.5, base[nm] + 0.75]


def build_sys_state(dist, grid, solver_kind):
    st = St()
    st.kind, st.dist, st.grid = "system/" + solver_kind, dist, grid
    st.solver_kind = solver_kind
    st.drv, st.prm = 0, 0
    st.obj = make_system(dist, grid, solver_kind)
    sys_set(st.obj, dist, solver_kind, 0, 0, grid)
    return st


def sys_results(mfa):
    s = mfa.stocks["use"]
    out = results(s, "dsm")
    for fn, f in mfa.flows.items():
        out["flow " + fn] = np.array(f.values, dtype=float, copy=True)
    return out


def apply_sys_op(st, op, check):
    mfa = st.obj

    def fail(kind, what):
        return "fail", dict(case={}, tags=dict(kind=kind, cls=st.kind, dist=st.dist), what=f"{st.kind} with {st.dist} on grid {list(st.grid)} after {op}: {what}")

    if op["op"] == "drv":
        st.drv = op["v"]
        sys_set(mfa, st.dist, st.solver_kind, st.drv, st.prm, st.grid)
        return "driver-set", None
    if op["op"] == "prm":
        st.prm = op["v"]
        sys_set(mfa, st.dist, st.solver_kind, st.drv, st.prm, st.grid)
        return "prms-set", None
    stt, info = attempt(lambda: mfa.compute())
    if not check:
        return "computed", None
    if stt == "raised":
        return fail("raised", f"system.compute() raised {info}")
    fresh = make_system(st.dist, st.grid, st.solver_kind)
    sys_set(fresh, st.dist, st.solver_kind, st.drv, st.prm, st.grid)
    fresh.compute()
    got, want = sys_results(mfa), sys_results(fresh)
    scale = max(1.0, max(float(np.nanmax(np.abs(v))) for v in want.values()))
    for nm in want:
        if not np.allclose(got[nm], want[nm], rtol=0, atol=1e-12 * scale, equal_nan=True):
            return fail("stale", f"{nm} differs from a freshly built system with the same parameters (driver v{st.drv}, parameters v{st.prm})")
    # each stock of the system against a STANDALONE stock built directly from its own parameters
    import flodym

    names = list(PRM_VERSIONS[st.dist][0])
    for sname, suffix in (("use", ""), ("use2", "_2")):
        sys_stock = mfa.stocks[sname]
        lm = getattr(flodym, st.dist)(dims=sys_stock.dims)
        lm.set_prms(**{nm: mfa.parameters[nm + suffix] for nm in names})
        if st.solver_kind == "inflow":
            alone = flodym.InflowDrivenDSM(dims=sys_stock.dims, lifetime_model=lm)
            alone.inflow[...] = mfa.parameters["driver"]
        else:
            alone = flodym.StockDrivenDSM(dims=sys_stock.dims, lifetime_model=lm, solver=st.solver_kind.split("-")[1])
            alone.stock[...] = mfa.parameters["driver"]
        alone.compute()
        a, b = results(sys_stock, "dsm"), results(alone, "dsm")
        for nm in b:
            if not np.allclose(a[nm], b[nm], rtol=0, atol=1e-12 * scale, equal_nan=True):
                return fail("stale", f"{nm} of stock {sname!r} inside the system differs from a standalone stock with the same driver and that stock's own parameters")
    return "compute-equals-fresh", None


def canon_sys(st):
    return digest(st.drv, st.prm, *deep_arrays(st.obj.stocks["use"]), *deep_arrays(st.obj.flows))


# ---- driver ---------------------------------------------------------------------------------------

KIND_DIST_Q = [
    ("inflow", "NormalLifetime"), ("inflow", "WeibullLifetime"), ("stock-manual", "LogNormalLifetime"), ("stock-lapack", "FoldedNormalLifetime"),
    ("inflow", "FixedLifetime"), ("stock-manual", "WeibullLifetime"), ("simple", "-"),
]


def bounds(tier):
    return dict(depth_ready=4 if tier == "quick" else 6, depth_blank=5 if tier == "quick" else 7, depth_system=4 if tier == "quick" else 6, grids=list(GRIDS))


def units(tier, seed):
    out = []
    if tier == "quick":
        combos = KIND_DIST_Q
    else:
        combos = [(k, d) for k in dsm_impl.KINDS for d in PRM_VERSIONS] + [("simple", "-")]
    for ci, (kind, dist) in enumerate(combos):
        for gi, gname in enumerate(GRIDS):
            for start in ("ready", "blank"):
                depth = (4 if start == "ready" else 5) if tier == "quick" else (6 if start == "ready" else 7)
                if kind == "simple":
                    depth = min(depth, 5)
                extras = list(EXTRAS) if tier == "thorough" else ["p2", ("none", "p1")[(ci + gi) % 2]]
                for ex in extras:
                    if ex != "p2" and start == "blank":
                        continue
                    d_here = depth if ex == "p2" else min(depth, 4)
                    # full alphabet to depth 3 (quick) / 4 (thorough) from the ready state; deeper over the reduced alphabet
                    full_depth = 4 if (tier == "thorough" and ex == "p2" and gname == "uneven") else 3
                    if start == "ready":
                        out.append(dict(mode="stock", kind=kind, dist=dist, grid=gname, start=start, depth=full_depth, extra=ex, npts=1))
                    out.append(dict(mode="stock", kind=kind, dist=dist, grid=gname, start=start, depth=min(d_here, 5), extra=ex, npts=1, reduced=True))
                    if kind != "simple" and start == "ready" and ex == "p2" and (tier == "thorough" or (ci + gi) % 2 == 0):
                        out.append(dict(mode="stock", kind=kind, dist=dist, grid=gname, start=start, depth=3, extra=ex, npts=3))
    sys_combos = [("inflow", "NormalLifetime"), ("stock-lapack", "WeibullLifetime")] if tier == "quick" else [(k, d) for k in dsm_impl.KINDS for d in PRM_VERSIONS if d != "FixedLifetime"]
    for sk, dist in sys_combos:
        for gname in GRIDS:
            out.append(dict(mode="system", kind=sk, dist=dist, grid=gname, depth=4 if tier == "quick" else 5))
    return out


def run_unit(u):
    global EXTRA, NPTS
    EXTRA = EXTRAS[u.get("extra", "p2")]
    NPTS = u.get("npts", 1)
    grid = GRIDS[u["grid"]]
    if u["mode"] == "stock":
        ops = ops_for(u["kind"], u["dist"], u.get("reduced", False))
        r = bfs.explore(lambda: build_state(u["kind"], u["dist"], grid, u["start"]), ops, apply_op, canon, u["depth"])
    else:
        ops = [dict(op="drv", v=k) for k in range(3)] + [dict(op="prm", v=k) for k in range(4)] + [dict(op="compute")]
        r = bfs.explore(lambda: build_sys_state(u["dist"], grid, u["kind"]), ops, apply_sys_op, canon_sys, u["depth"])
    for f in r["fails"]:
        f["case"] = dict(unit=u, history=f["case"]["history"])
        f["what"] = f"history {[_short(o) for o in f['case']['history']]}: " + f["what"]
    res = dict(evals=r["transitions"], nontrivial=r["outcomes"].get("compute-equals-fresh", 0) + r["outcomes"].get("compute-refused", 0) + r["states"], outcomes=r["outcomes"], fails=r["fails"], states=r["states"], transitions=r["transitions"], traces=r["traces"], samples=[])
    if u["mode"] == "stock" and u["kind"] == "inflow" and u["dist"] == "NormalLifetime" and u["grid"] == "uneven" and u["start"] == "ready":
        res["samples"].append(dict(unit=u, history=["compute", "prm:=1", "compute"], meaning="after re-parameterising (only the mean changes) the second compute must equal a fresh stock with parameters v1"))
    return res


def _short(o):
    return o["op"] + (":" + str(o.get("v", o.get("what", ""))) if o["op"] != "compute" else "")


def replay(case):
    global EXTRA, NPTS
    u = case["unit"]
    EXTRA = EXTRAS[u.get("extra", "p2")]
    NPTS = u.get("npts", 1)
    grid = GRIDS[u["grid"]]
    if u["mode"] == "stock":
        st = build_state(u["kind"], u["dist"], grid, u["start"])
        ap = apply_op
    else:
        st = build_sys_state(u["dist"], grid, u["kind"])
        ap = apply_sys_op
    for op in case["history"]:
        oc, f = ap(st, op, True)
        if f:
            f["case"] = case
            return [f]
    return []
