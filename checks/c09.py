"""C09 - cohort tables add up to the totals and each cohort is conserved.

E1 over the same configuration space as C03 (dynamic stock models only).  Oracle, for every (t, c,
label): stock == sum_c stock_by_cohort, outflow == sum_c outflow_by_cohort, both zero for c > t,
stock_by_cohort[t,c] == inflow[c] * dt[c] * S_model[t,c] (closed-form survival), never increasing in t
for non-negative inflow, and inflow[c]*dt[c] == stock_by_cohort[t,c] + sum_{t'<=t} outflow_by_cohort[t',c]*dt[t'].
"""

from mc import dsm, dsm_impl
from mc.util import attempt
from checks import c03

PROPERTY = "C09"
LEVEL = "exploration"
ENGINE = "E1-enumeration"
TECHNIQUE = "bounded exhaustive enumeration of DSM configurations; cohort identities checked against closed-form survival and independently computed interval lengths"
RULE = (
    "complete enumeration of (InflowDriven, StockDriven/manual, StockDriven/lapack) x (time grids with steps in "
    "{1,2,5}, 3-5 items; quick: 13 representatives) x (13 lifetime parametrisations) x (quadratures) x (extra dims "
    "none / p / p x q with equal lengths) x (scalar and per-label-and-cohort parameters in permuted storage) x "
    "(drivers: unit impulses, positive, mixed sign, prescribed stocks incl. decreasing and with exact zeros). All "
    "five cohort identities are evaluated for every (t, c, label). Non-trivial = configuration actually computed "
    "(well-conditioned). Distinct by construction."
    " Also: integer prescribed stocks, shallow copies of computed stocks computed with other arrays, n > 1 with a non-default inflow_at, 12 x 100 models."
)
ASSUMPTIONS = c03.ASSUMPTIONS
LEVEL_TEXT = (
    "Every bounded DSM configuration is computed with the real classes and the cohort tables are checked entry by "
    "entry: sums over cohorts, zero upper triangle, cohort stock = whole-period inflow x closed-form survival share, "
    "monotonicity, and per-cohort conservation with outflow rates times their interval lengths."
)
LEVEL_NOTE = "Trusted: scalar interval rule, closed-form survival functions (math.erfc etc.). Finite driver/parameter alphabets, grids up to 5 items."
TOL = 1e-10
RECOMPUTE_DRIVERS = c03.RECOMPUTE_DRIVERS


def bounds(tier):
    return c03.bounds(tier)


def units(tier, seed):
    return c03.units(tier, seed) + [dict(large=True, dist=d, tier=tier) for d in ("NormalLifetime", "WeibullLifetime")]


def run_case(kind, grid, li, quad, extra, pair, drv):
    lt = dsm.LT[li]
    extra = [tuple(e) for e in extra]
    grid = tuple(grid)
    n = len(grid)
    labs = dsm_impl.labels(extra)
    shapes = c03.shapes_dict(lt, pair)
    case = dict(kind=kind, grid=list(grid), lt=li, quad=list(quad), extra=[list(e) for e in extra], pair=list(pair), drv=drv)
    tags0 = dict(cls=kind, grid=dsm.grid_kind(grid), dist=lt[0])

    def fail(k, what):
        t = dict(tags0)
        t["kind"] = k
        return "fail", dict(case=case, tags=t, what=f"{kind} DSM, {lt[0]}{lt[1]} shapes {shapes}, grid {list(grid)} extra {extra} quad {quad} driver {drv}: {what}")

    sf_m, _ = dsm.sf_table(grid, lt[0], dsm_impl.prm_fn(lt[1], shapes, extra), quad[0], quad[1], labs)
    if kind.startswith("stock"):
        if any(sf_m[(c, c, lab)] is None or sf_m[(c, c, lab)] < 0.05 for c in range(n) for lab in labs):
            return "skipped-ill-conditioned", None

    def compute():
        if kind == "inflow":
            d = dsm_impl.driver_series(drv, n, extra)
        elif drv == "from-inflow":
            d = dsm_impl.run_stock("inflow", grid, lt, quad, extra, shapes, dsm_impl.driver_series("pos", n, extra))["stock"]
        else:
            d = dsm_impl.driver_series(drv, n, extra)
        return dsm_impl.run_stock(kind, grid, lt, quad, extra, shapes, d, recompute=(drv in RECOMPUTE_DRIVERS), int_dtype=drv.endswith("#int"), shadow=(drv in ("mixed", "inc", "from-inflow")))

    st, res = attempt(compute)
    if st == "raised":
        return fail("raised", f"compute raised {res}")
    dt = dsm.dts(grid)
    scale = dsm_impl.scale_of(res, grid)
    tol = TOL * scale
    sbc, obc = res["sbc"], res["obc"]
    for lab in labs:
        nonneg = all(res["inflow"][(c, lab)] >= 0 for c in range(n))
        for t in range(n):
            ss = sum(sbc[(t, c, lab)] for c in range(n))
            if not abs(ss - res["stock"][(t, lab)]) <= tol:
                return fail("stock-sum", f"sum over cohorts of stock_by_cohort = {ss!r} != stock = {res['stock'][(t, lab)]!r} at t={t}, label {lab}")
            so = sum(obc[(t, c, lab)] for c in range(n))
            if not abs(so - res["outflow"][(t, lab)]) <= tol:
                return fail("outflow-sum", f"sum over cohorts of outflow_by_cohort = {so!r} != outflow = {res['outflow'][(t, lab)]!r} at t={t}, label {lab}")
            for c in range(n):
                if c > t:
                    if sbc[(t, c, lab)] != 0.0 or obc[(t, c, lab)] != 0.0:
                        return fail("upper-triangle", f"cohort {c} later than year {t} has non-zero table entries")
                    continue
                entered = res["inflow"][(c, lab)] * dt[c]
                if sf_m[(t, c, lab)] is not None:
                    want = entered * sf_m[(t, c, lab)]
                    if not abs(sbc[(t, c, lab)] - want) <= tol:
                        return fail("cohort-stock", f"stock_by_cohort[t={t}, c={c}, {lab}] = {sbc[(t, c, lab)]!r} but inflow({c}) x dt({c}) x survival share = {want!r}")
                if nonneg and t > c and sbc[(t, c, lab)] > sbc[(t - 1, c, lab)] + tol:
                    return fail("cohort-grows", f"stock of cohort {c} increases from t={t-1} to t={t} at label {lab} although inflow >= 0")
                left = sum(obc[(tt, c, lab)] * dt[tt] for tt in range(c, t + 1))
                if not abs(entered - sbc[(t, c, lab)] - left) <= tol:
                    return fail("cohort-conservation", f"cohort {c} at t={t}, label {lab}: entered {entered!r} != in stock {sbc[(t, c, lab)]!r} + left so far {left!r}")
    return "cohorts-consistent", None


def run_large_case(dist, kind):
    """two LARGE models (12 x 100) computed one after the other in one process; the second one's lifetime parameters
    differ from the first's only in the interior of the parameter array"""
    import numpy as np

    import flodym
    from checks import c08

    case = dict(large=True, dist=dist, kind=kind)
    grid, extra, dims, labs, names, pfun, arrays = c08.large_setup(dist)
    n = len(grid)
    dt = dsm.dts(grid)

    def go():
        for variant in ("A", "B"):
            lm = getattr(flodym, dist)(dims=dims, **arrays(variant))
            drv = np.array([[5.0 + ((3 * t + j) % 7) for j in range(100)] for t in range(n)])
            if kind == "inflow":
                s = flodym.InflowDrivenDSM(dims=dims, lifetime_model=lm, inflow=flodym.StockArray(dims=dims, values=drv))
            else:
                s = flodym.StockDrivenDSM(dims=dims, lifetime_model=lm, stock=flodym.StockArray(dims=dims, values=np.cumsum(drv, axis=0)))
            s.compute()
            sf_m, _ = dsm.sf_table(grid, dist, pfun(variant), "middle", 1, labs)
            sbc = s.get_stock_by_cohort()
            scale = float(np.abs(s.inflow.values).max()) + float(np.abs(s.stock.values).max())
            for (t, c, lab), v in sf_m.items():
                if v is None or c > t:
                    continue
                want = float(s.inflow.values[(c,) + lab]) * dt[c] * v
                if not abs(float(sbc[(t, c) + lab]) - want) <= TOL * scale:
                    return f"model {variant}: stock_by_cohort[t={t}, c={c}, {lab}] = {float(sbc[(t, c) + lab])!r} but inflow({c}) x dt x survival share = {want!r}"
            if not np.allclose(sbc.sum(axis=1), s.stock.values, rtol=0, atol=TOL * scale):
                return f"model {variant}: stock != sum over cohorts"
        return None

    st, d = attempt(go)
    if st == "raised" or d:
        return "fail", dict(case=case, tags=dict(cls=kind, dist=dist, kind="large"), what=f"large {kind} DSM with {dist} (12 x 100): {('raised ' + str(d)) if st == 'raised' else d}")
    return "cohorts-consistent (large)", None


def run_unit(u):
    tier = u["tier"]
    if u.get("large"):
        res = dict(evals=0, nontrivial=0, outcomes={}, fails=[], samples=[])
        for kind in ("inflow", "stock"):
            oc, f = run_large_case(u["dist"], kind)
            res["evals"] += 1
            res["nontrivial"] += 1
            res["outcomes"][oc] = res["outcomes"].get(oc, 0) + 1
            if f:
                res["fails"].append(f)
        return res
    grid, li = u["grid"], u["lt"]
    n = len(grid)
    res = dict(evals=0, nontrivial=0, outcomes={}, fails=[], samples=[])
    quads = c03.QUADS_Q if tier == "quick" else dsm.QUADS
    for kind in dsm_impl.KINDS:
        for ei, extra in enumerate(c03.EXTRAS):
            for pi, pair in enumerate(c03.SHAPES[ei]):
                for qi, quad in enumerate(quads):
                    if tier == "quick" and ei == 2 and qi not in (1, 3):
                        continue
                    for drv in c03.drivers_for(kind, n, tier):
                        oc, f = run_case(kind, grid, li, quad, extra, pair, drv)
                        res["evals"] += 1
                        res["nontrivial"] += 0 if oc.startswith("skipped") else 1
                        res["outcomes"][oc] = res["outcomes"].get(oc, 0) + 1
                        if f:
                            res["fails"].append(f)
    if li == 9 and grid == [2000, 2005, 2007, 2008]:
        res["samples"].append(dict(kind="stock-manual", grid=grid, lifetime=list(dsm.LT[9]), quad=["end", 1], extra=[["p", 2], ["q", 2]], shapes=["qp", "tq"], driver="hump", meaning="stock_by_cohort[t,c] == inflow[c]*dt[c]*S(t,c) with dt = [5.0, 3.5, 1.5, 1.0]; cohort conservation with outflow rates x dt"))
    return res


def replay(case):
    if case.get("large"):
        oc, f = run_large_case(case["dist"], case["kind"])
        return [f] if f else []
    oc, f = run_case(case["kind"], case["grid"], case["lt"], tuple(case["quad"]), case["extra"], tuple(case["pair"]), case["drv"])
    return [f] if f else []
