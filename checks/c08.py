"""C08 - survival tables are valid and equal the declared lifetime distribution.

E1: every time grid (steps in {1,2,5}, 3..5 items) x every lifetime parametrisation x every
inflow_at / n_pts_per_interval setting x parameter shape (scalar, per label, per cohort, permuted
storage) x extra dimensions x both ways of supplying parameters.  Oracle: closed-form survival
functions (math.erfc / exp / log), the documented interval rule, an independently computed
Gauss-Lobatto rule, evaluated per label and per cohort; plus the structural invariants.
"""

import itertools

from mc import dsm, dsm_impl
from mc.util import attempt

PROPERTY = "C08"
LEVEL = "exploration"
ENGINE = "E1-enumeration"
TECHNIQUE = "bounded exhaustive enumeration of lifetime-model configurations vs. closed-form survival functions"
RULE = (
    "complete enumeration of (time grid: all strictly increasing integer grids with steps in {1,2,5} and 3-5 "
    "items; quick: 13 representatives incl. unit, constant and uneven) x (13 lifetime parametrisations over the 5 "
    "distributions, incl. fixed lifetimes exactly on an evaluated age) x (start, middle, end, n=2..10 "
    "Gauss-Lobatto points; n>1 also combined with inflow_at start/end, which must be ignored) x (parameter "
    "shapes: scalar / per label / per cohort / several dims in permuted storage order, different per parameter) "
    "x (extra dims: none, p, p x q with equal lengths) x (parameters via constructor / set_prms / set_prms on a model whose tables had already been read with other parameters). Every entry of "
    "sf and pdf is compared with the model (1e-12) and the structural invariants are evaluated on every table. "
    "Non-trivial = table with >= 3 cohorts (all are). Distinct by construction."
    " Also: models configured by attribute assignment, with re-parametrised shallow copies, after use by stocks, with parameters nudged by 2**-20 after a table read; sub-annual grids; 12 x 100 models differing only in the interior of the parameter array."
)
ASSUMPTIONS = [
    "closed forms via math.erfc/exp/log agree with scipy.stats to ~2e-16 (calibrated); tolerance 1e-12",
    "finite parameter alphabet (13 base parametrisations + per-label / per-cohort offsets), grids up to 5 items",
    "entries whose age lies within 1e-9 of a fixed lifetime without being equal are skipped (none occur on these grids)",
]
LEVEL_TEXT = (
    "All lifetime-model configurations within the bound are built with the real classes and every entry of the "
    "survival and outflow-probability tables is compared with an independent closed-form evaluation at the "
    "documented age, per label and per cohort; the validity invariants are checked on every table."
)
LEVEL_NOTE = "Trusted: math.erfc/erf/exp/log, decimal arithmetic for the quadrature rule. Real-valued parameters outside the alphabet and grids beyond 5 items are not covered."

EXTRAS_Q = ([], [("p", 2)], [("p", 2), ("q", 2)])
EXTRAS_T = ([], [("p", 2)], [("p", 2), ("q", 2)], [("p", 3), ("q", 2)])
TOL = 1e-12


VIAS = ("ctor", "set_prms", "reparam", "positional", "attrs", "copy-reparam", "used", "nudge")


def shape_pairs(extra, tier):
    """(shape of first parameter, shape of second parameter)"""
    letters = ["t"] + [l for l, _ in extra]
    arrs = ["".join(p) for k in range(1, len(letters) + 1) for p in itertools.permutations(letters, k)]
    if tier == "thorough":
        out = [("scalar", "scalar")]
        for a in arrs:
            out.append((a, "scalar"))
            out.append((a[::-1], a))
        return out
    if not extra:
        return [("scalar", "scalar"), ("t", "scalar"), ("scalar", "t"), ("T", "scalar")]
    if len(extra) == 1:
        return [("scalar", "scalar"), ("p", "scalar"), ("t", "p"), ("pt", "tp"), ("tp", "t"), ("pT", "p")]
    return [("scalar", "p"), ("q", "scalar"), ("qp", "pq"), ("tqp", "q"), ("pt", "tq"), ("tpq", "qtp"), ("pqt", "scalar")]


def quads(tier):
    q = list(dsm.QUADS)
    q += [("start", 2), ("end", 3), ("start", 6), ("end", 10)]
    return q


def bounds(tier):
    return dict(grids=len(dsm.QUICK_GRIDS if tier == "quick" else dsm.grids()), lifetimes=len(dsm.LT), quadratures=len(quads(tier)), extras=[str(e) for e in (EXTRAS_Q if tier == "quick" else EXTRAS_T)])


def units(tier, seed):
    gs = dsm.QUICK_GRIDS if tier == "quick" else dsm.grids()
    out = []
    for g in gs:
        for li in range(len(dsm.LT)):
            out.append(dict(grid=list(g), lt=li, tier=tier))
    for dist in ("NormalLifetime", "WeibullLifetime", "FixedLifetime"):
        out.append(dict(large=True, dist=dist, tier=tier))
    return out


def run_case(grid, li, quad, extra, shapes2, via):
    dist, base = dsm.LT[li]
    names = list(base)
    shapes = {names[0]: shapes2[0]}
    if len(names) > 1:
        shapes[names[1]] = shapes2[1]
    inflow_at, n_pts = quad
    extra = [tuple(e) for e in extra]
    case = dict(grid=list(grid), lt=li, quad=list(quad), extra=[list(e) for e in extra], shapes=list(shapes2), via=via)
    tags0 = dict(dist=dist, quad="n>1" if n_pts > 1 else inflow_at, grid=dsm.grid_kind(grid), pshape="scalar" if all(s == "scalar" for s in shapes.values()) else "array")

    def fail(kind, what):
        t = dict(tags0)
        t["kind"] = kind
        return "fail", dict(case=case, tags=t, what=f"{dist}{base} shapes {shapes} on grid {list(grid)} extra {extra} inflow_at={inflow_at} n_pts={n_pts} via {via}: {what}")

    def build():
        dims = dsm_impl.make_dims(grid, extra)
        lm = dsm_impl.make_lifetime(dist, dims, base, shapes, extra, inflow_at, n_pts, via)
        if (len(grid) + n_pts + len(extra)) % 2:  # the outflow table is asked for first
            p = lm.pdf
            return lm.sf, p
        return lm.sf, lm.pdf

    st, got = attempt(build)
    if st == "raised":
        return fail("raised", f"building the tables raised {got}")
    st, tabs = attempt(lambda: (dsm_impl.table_from_nd(got[0], extra), dsm_impl.table_from_nd(got[1], extra)))
    if st == "raised":
        return fail("shape", str(tabs))
    sf_i, pdf_i = tabs
    labs = dsm_impl.labels(extra)
    n = len(grid)
    sf_m, skipped = dsm.sf_table(grid, dist, dsm_impl.prm_fn(base, shapes, extra), inflow_at, n_pts, labs)
    pdf_m = dsm.pdf_table(sf_m, n, labs)
    for k, v in sf_m.items():
        if v is None:
            continue
        if not abs(sf_i[k] - v) <= TOL:
            return fail("sf-value", f"sf[t={k[0]}, c={k[1]}, label={k[2]}] = {sf_i[k]!r}, the distribution's survival function gives {v!r}")
    for k, v in pdf_m.items():
        if v is None:
            continue
        if not abs(pdf_i[k] - v) <= TOL:
            return fail("pdf-value", f"pdf[t={k[0]}, c={k[1]}, label={k[2]}] = {pdf_i[k]!r}, expected {v!r}")
    # structural invariants on the implementation's own tables
    for lab in labs:
        for c in range(n):
            acc = 0.0
            for t in range(n):
                s, p = sf_i[(t, c, lab)], pdf_i[(t, c, lab)]
                if t < c:
                    if s != 0.0 or p != 0.0:
                        return fail("structure", f"entry for cohort {c} later than year {t} is not zero (sf {s}, pdf {p})")
                    continue
                if not (-1e-15 <= s <= 1 + 1e-15):
                    return fail("structure", f"sf[{t},{c},{lab}] = {s} outside [0,1]")
                if p < -1e-15:
                    return fail("structure", f"pdf[{t},{c},{lab}] = {p} negative")
                if t > c and s > sf_i[(t - 1, c, lab)] + 1e-15:
                    return fail("structure", f"sf increases with age at t={t}, c={c}, label {lab}")
                acc += p
                if abs(s + acc - 1.0) > 1e-12:
                    return fail("structure", f"sf + cumulated pdf = {s + acc} != 1 at t={t}, c={c}, label {lab}")
    return "table-agrees", None


def large_setup(dist):
    import numpy as np

    import flodym

    grid = tuple(range(2000, 2012))
    n, npr = len(grid), 100
    extra = [("p", npr)]
    dims = dsm_impl.make_dims(grid, extra)
    labs = dsm_impl.labels(extra)
    names = {"NormalLifetime": ("mean", "std"), "WeibullLifetime": ("weibull_shape", "weibull_scale"), "FixedLifetime": ("mean",)}[dist]

    def pfun(variant):
        def f(nm, c, lab):
            j = lab[0]
            base = {"mean": 3.3 + 0.01 * j + 0.1 * c, "std": 1.0 + 0.002 * j, "weibull_shape": 1.5 + 0.003 * j, "weibull_scale": 4.0 + 0.02 * j + 0.05 * c}[nm]
            if variant == "B" and nm == names[0] and 3 <= c < n - 3 and 3 <= j < npr - 3:
                base += 0.5
            return base

        return f

    def arrays(variant):
        f = pfun(variant)
        out = {}
        for nm in names:
            v = np.zeros((n, npr))
            for c in range(n):
                for j in range(npr):
                    v[c, j] = f(nm, c, (j,))
            out[nm] = flodym.FlodymArray(dims=dims, values=v)
        return out

    return grid, extra, dims, labs, names, pfun, arrays


def run_large_case(dist, which):
    """one LARGE model (12 time steps x 100 labels: parameter arrays of 1200 entries) and a second one - a new model
    or the same object re-parametrised - whose parameters differ from the first only in the interior of the array"""
    import flodym

    case = dict(large=True, dist=dist, which=which)
    grid, extra, dims, labs, names, pfun, arrays = large_setup(dist)

    def compare(lm, variant):
        sf_m, _ = dsm.sf_table(grid, dist, pfun(variant), "middle", 1, labs)
        sf_i = lm.sf
        for (t, c, lab), v in sf_m.items():
            if v is not None and not abs(float(sf_i[(t, c) + lab]) - v) <= TOL:
                return f"model {variant}: sf[t={t}, c={c}, label={lab}] = {float(sf_i[(t, c) + lab])!r}, the distribution's survival function gives {v!r}"
        return None

    def go():
        cls = getattr(flodym, dist)
        a = cls(dims=dims, **arrays("A"))
        d = compare(a, "A")
        if d:
            return d
        if which == "second-model":
            b = cls(dims=dims, **arrays("B"))
        else:
            b = a
            b.set_prms(**arrays("B"))
        return compare(b, "B")

    st, d = attempt(go)
    if st == "raised":
        return "fail", dict(case=case, tags=dict(dist=dist, kind="raised", pshape="large"), what=f"large {dist} model (12 x 100), {which}: raised {d}")
    if d:
        return "fail", dict(case=case, tags=dict(dist=dist, kind="sf-value", pshape="large"), what=f"large {dist} model (12 x 100), {which}: {d}")
    return "table-agrees (large)", None


def run_unit(u):
    tier = u["tier"]
    res = dict(evals=0, nontrivial=0, outcomes={}, fails=[], samples=[])
    if u.get("large"):
        for which in ("second-model", "set_prms"):
            oc, f = run_large_case(u["dist"], which)
            res["evals"] += 1
            res["nontrivial"] += 1
            res["outcomes"][oc] = res["outcomes"].get(oc, 0) + 1
            if f:
                res["fails"].append(f)
        return res
    k = 0
    for extra in EXTRAS_Q if tier == "quick" else EXTRAS_T:
        for shapes2 in shape_pairs(extra, tier):
            for quad in quads(tier):
                k += 1
                vias = VIAS if tier == "thorough" and quad[1] in (1, 4) else (VIAS[k % 4], VIAS[4 + k % 4])
                if tier == "thorough" and len(extra) == 2 and quad[1] not in (1, 2, 5, 10):
                    continue
                for via in vias:
                    oc, f = run_case(u["grid"], u["lt"], quad, extra, shapes2, via)
                    res["evals"] += 1
                    res["nontrivial"] += 1
                    res["outcomes"][oc] = res["outcomes"].get(oc, 0) + 1
                    if f:
                        res["fails"].append(f)
    if u["lt"] == 9 and u["grid"] == [2000, 2001, 2003, 2008]:
        res["samples"].append(dict(grid=u["grid"], lifetime=list(dsm.LT[9]), quad=["middle", 4], extra=[["p", 2], ["q", 2]], shapes=["qp", "pq"], meaning="mean stored as (q,p), std as (p,q): every sf/pdf entry compared with the closed-form log-normal survival at the documented age, per label"))
    return res


def replay(case):
    if case.get("large"):
        oc, f = run_large_case(case["dist"], case["which"])
        return [f] if f else []
    oc, f = run_case(case["grid"], case["lt"], tuple(case["quad"]), case["extra"], tuple(case["shapes"]), case["via"])
    return [f] if f else []
