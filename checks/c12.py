"""C12 - data import refuses incomplete or inconsistent data unless told otherwise.

E3 (fault enumeration): clean tables in representative layouts x EVERY single fault {drop record i,
duplicate record i (same / different value, adjacent / at the end), relabel record i to an unknown
item in dimension d, blank value i, add a record with an unknown item, drop a dimension column, add
a second value column} at every position, and every PAIR of faults, x all four flag combinations
x entry point {from_df, set_values_from_df on a pre-filled target, CSVParameterReader,
ExcelParameterReader}.  The expected outcome is computed from the faulted RECORD LIST.
"""

import itertools
import os
import tempfile

import numpy as np
import pandas as pd

from mc import frames as F
from mc.util import attempt

PROPERTY = "C12"
LEVEL = "fault_enumeration"
ENGINE = "E1-enumeration"
TECHNIQUE = "exhaustive enumeration of single and paired data faults at every position x flag combinations x entry points; expected outcome from the faulted record list"
RULE = (
    "complete enumeration of (table: 4 dimension sets with 2-12 records) x (layout: long with names / letters / "
    "items-only headers, dims in columns or in the index, wide over the last dimension) x (all single faults at "
    "every record position and every dimension) x (all four combinations of allow_missing_values / "
    "allow_extra_values) x (from_df, set_values_from_df on a pre-filled target, CSVParameterReader, "
    "ExcelParameterReader); all PAIRS of faults on the long layouts for from_df and set_values_from_df. Outcome "
    "classes: must-raise (target bit-identical afterwards), must-succeed with exactly the record-list result, "
    "open (stated). Non-trivial = at least one fault applied. Distinct by construction."
    " Also: ragged CSV lines, integer items starting at 0, infinite values, a 41 x 30 x 29 table."
)
ASSUMPTIONS = [
    "open outcomes (either behaviour accepted): duplicated rows that also carry an unknown item under allow_extra_values; unknown items under an items-only header; an unknown item in the header of a wide layout under allow_extra_values",
    "tables of <= 12 records; pairs of faults, not triples",
    "pandas / openpyxl are the producers of the frames and files",
]
LEVEL_TEXT = (
    "Every single fault and every pair of faults at every position of small tables is injected in each layout and "
    "imported through each entry point under each flag combination; refusal, absence of partial writes and the "
    "exact result of tolerated faults are decided from the faulted record list."
)
LEVEL_NOTE = "Trusted: frame builder, fault classifier (~60 lines). Faults beyond pairs and tables beyond 12 records are outside the bound."

TABLES_Q = [["T", "S"], ["S", "U", "O"], ["N"], ["N", "Y"]]
TABLES_T = TABLES_Q + [["T", "S", "N"], ["U", "Y"]]
FLAGS = [(False, False), (True, False), (False, True), (True, True)]
UNKNOWN = {str: "zz", int: 9999}


def layouts_for(keys):
    lays = []
    for header in ("names", "letters", "items-only"):
        lays.append(dict(wide=None, index=[], header=header))
    lays.append(dict(wide=None, index=list(keys), header="names"))
    lays.append(dict(wide=None, index=[], header="names", rowindex="repeat", rowperm="rot1"))
    lays.append(dict(wide=None, index=[keys[0]], header="letters", colperm="rev"))
    if len(keys) >= 2:
        lays.append(dict(wide=keys[-1], index=[], header="names"))
        lays.append(dict(wide=keys[-1], index=[keys[0]], header="letters"))
    return lays


def single_faults(keys, n, wide):
    out = []
    for i in range(n):
        out.append(("drop", i))
        out.append(("blank", i))
        out.append(("inf", i))  # an infinite value is a value: present, not empty
        if wide is None:
            out.append(("dup_same", i, "adjacent"))
            out.append(("dup_same", i, "end"))
            out.append(("dup_diff", i, "end"))
            out.append(("dup_diff", i, "start"))
        for d in keys:
            if d != wide:
                out.append(("relabel", i, d))
                if F.POOL[d][3] is int:
                    # unknown labels that only LOOK like an item (2000.5) or cannot be converted at all ("total")
                    out.append(("relabel_frac", i, d))
                    out.append(("relabel_text", i, d))
    for d in keys:
        if d != wide:
            out.append(("add_extra", d))
    if wide is None:
        for d in keys:
            if F.POOL[d][3] is int:
                for i in range(n):
                    out.append(("dup_text", i, d))  # the same label combination again, that label given as text
    else:
        out.append(("extra_wide_column",))
    for d in keys:
        if len(F.POOL[d][2]) > 1 and d != wide:
            out.append(("drop_column", d))
    if wide is None:
        out.append(("second_value_column",))
        out.append(("ragged_csv",))  # CSV text only: every data line carries one more field than the header names
    return out


def unknown_item(d):
    return UNKNOWN[type(F.POOL[d][2][0])]


def apply_faults(keys, faults):
    """returns (rows: list of (labels, value), structural: set)"""
    recs = F.records(keys)
    rows = [[dict(l), v, i] for i, (l, v) in enumerate(recs)]  # third = original index
    structural = set()
    for f in faults:
        kind = f[0]
        if kind == "drop":
            rows = [r for r in rows if not (r[2] == f[1] and not r[0].get("_dup"))]
        elif kind == "blank":
            for r in rows:
                if r[2] == f[1] and not r[0].get("_dup"):
                    r[1] = float("nan")
        elif kind == "inf":
            for r in rows:
                if r[2] == f[1] and not r[0].get("_dup"):
                    r[1] = float("inf") if f[1] % 2 == 0 else float("-inf")
        elif kind in ("dup_same", "dup_diff"):
            lab, v = recs[f[1]]
            new = [dict(lab, _dup=True), v if kind == "dup_same" else v + 1000.0, f[1]]
            pos = [k for k, r in enumerate(rows) if r[2] == f[1]]
            if f[2] == "adjacent" and pos:
                rows.insert(pos[0] + 1, new)
            elif f[2] == "start":
                rows.insert(0, new)
            else:
                rows.append(new)
        elif kind == "relabel":
            for r in rows:
                if r[2] == f[1] and not r[0].get("_dup"):
                    r[0][f[2]] = unknown_item(f[2])
        elif kind in ("relabel_frac", "relabel_text"):
            for r in rows:
                if r[2] == f[1] and not r[0].get("_dup"):
                    r[0][f[2]] = (float(r[0][f[2]]) + 0.5) if kind == "relabel_frac" else "total"
        elif kind == "add_extra":
            lab = dict(recs[0][0])
            lab[f[1]] = unknown_item(f[1])
            rows.append([lab, 55.5, -1])
        elif kind == "dup_text":
            lab, v = recs[f[1]]
            lab = dict(lab, _dup=True)
            lab[f[2]] = str(lab[f[2]])
            rows.append([lab, v + 1000.0, f[1]])
        elif kind == "extra_wide_column":
            structural.add(("extra_wide_column",))
        elif kind == "drop_column":
            structural.add(("drop_column", f[1]))
        elif kind == "second_value_column":
            structural.add(("second_value_column",))
        elif kind == "ragged_csv":
            structural.add(("ragged_csv",))
    out = []
    for r in rows:
        lab = {k: v for k, v in r[0].items() if k != "_dup"}
        out.append((lab, r[1]))
    return out, structural


def classify(keys, rows, structural, flags, header, wide):
    """-> ('raise' | 'open' | 'ok', expected ndarray or None)"""
    allow_missing, allow_extra = flags
    if structural:
        if structural == {("extra_wide_column",)} and allow_extra:
            return "open", None  # a surplus COLUMN is not a row with an unknown item: the statement leaves it open
        if ("ragged_csv",) in structural and (allow_extra or allow_missing):
            return "open", None  # how a reader aligns the surplus field is its own business; only the default is stated
        return "raise", None
    # a label of a typed dimension given as text is that item once converted to the declared type
    def canon(k, v):
        dt = F.POOL[k][3]
        if dt is not None and isinstance(v, str) and dt is not str:
            try:
                return dt(v)
            except ValueError:
                return v
        return v

    rows = [({k: canon(k, v) for k, v in lab.items()}, val) for lab, val in rows]
    known = lambda lab: all(lab[k] in F.POOL[k][2] for k in keys)
    extras = [r for r in rows if not known(r[0])]
    good = [r for r in rows if known(r[0])]
    keyt = lambda lab: tuple(lab[k] for k in keys)
    counts = {}
    for r in good:
        counts[keyt(r[0])] = counts.get(keyt(r[0]), 0) + 1
    dup_good = any(c > 1 for c in counts.values())
    ecounts = {}
    for r in extras:
        ecounts[keyt(r[0])] = ecounts.get(keyt(r[0]), 0) + 1
    dup_extra = any(c > 1 for c in ecounts.values())
    if wide is not None and dup_extra:
        dup_extra = False  # in a wide table cells of one row are not separate rows
    expected = set(itertools.product(*[F.POOL[k][2] for k in keys]))
    missing = expected - set(counts)
    blank = any(r[1] != r[1] for r in good)
    if wide is not None:
        # cells missing in a wide table are NaN cells of existing rows or whole rows missing
        pass
    if dup_good:
        return "raise", None
    if header == "items-only":
        # a column is identified only through its items: every item must occur, nothing else may
        for k in keys:
            if {r[0][k] for r in rows} != set(F.POOL[k][2]):
                return ("raise" if not (allow_missing or allow_extra) else "open"), None
    if extras and header == "items-only":
        return ("raise" if not allow_extra else "open"), None
    if extras and not allow_extra:
        return "raise", None
    if (missing or blank) and not allow_missing:
        if extras and dup_extra:
            return "raise", None
        return "raise", None
    if dup_extra:
        return "open", None
    shape = tuple(len(F.POOL[k][2]) for k in keys)
    v = np.zeros(shape)
    for lab, val in good:
        idx = tuple(F.POOL[k][2].index(lab[k]) for k in keys)
        v[idx] = 0.0 if val != val else val
    return "ok", v


def frame_for(keys, rows, structural, lay):
    df, info = F.build_frame(keys, rows, lay)
    for s in structural:
        if s[0] == "drop_column":
            k = s[1]
            names = {F.POOL[k][0], F.POOL[k][1]}
            if isinstance(df.index, pd.MultiIndex) or df.index.name is not None:
                df = df.reset_index()
            cols = [c for c in df.columns if c in names or (lay["header"] == "items-only" and c == f"c{keys.index(k)}")]
            df = df.drop(columns=cols)
        elif s[0] == "extra_wide_column":
            df = df.copy()
            df["bird"] = 1.5
        elif s[0] == "ragged_csv":
            pass  # applied to the CSV text
        else:
            df = df.copy()
            df["second"] = 1.5
    return df


def run_case(keys, lay, faults, flags, entry):
    import flodym
    from flodym import FlodymArray, Parameter

    case = dict(keys=keys, layout=lay, faults=[list(f) for f in faults], flags=list(flags), entry=entry)
    rows, structural = apply_faults(keys, faults)
    if lay["wide"] is not None:
        # a wide table cannot express two rows with the same row labels as separate cells
        pass
    want, expected = classify(keys, rows, structural, flags, lay["header"], lay["wide"])
    desc = f"dims {[F.POOL[k][0] for k in keys]} layout {lay} faults {faults} allow_missing={flags[0]} allow_extra={flags[1]} via {entry}"
    tags = dict(entry=entry, header=lay["header"], wide=lay["wide"] is not None, faults="+".join(sorted(f[0] for f in faults)), flags=f"{int(flags[0])}{int(flags[1])}")

    def fail(kind, what):
        t = dict(tags)
        t["kind"] = kind
        return "fail", dict(case=case, tags=t, what=f"{desc}: {what}")

    if ("ragged_csv",) in structural and entry != "csv":
        return "n/a", None
    st, df = attempt(lambda: frame_for(keys, rows, structural, lay))
    if st == "raised":
        raise RuntimeError(f"frame builder failed on {desc}: {df}")
    dims = F.make_dims(keys)
    target = None
    if entry == "from_df":
        call = lambda: FlodymArray.from_df(dims=dims, df=df, allow_missing_values=flags[0], allow_extra_values=flags[1])
    elif entry == "set_values_from_df":
        target = FlodymArray(dims=dims, values=np.full(dims.shape, 777.0))

        def call():
            target.set_values_from_df(df, allow_missing_values=flags[0], allow_extra_values=flags[1])
            first = target.values.copy()
            target.set_values_from_df(df, allow_missing_values=flags[0], allow_extra_values=flags[1])
            if not np.array_equal(first, target.values, equal_nan=True):
                raise AssertionError("SECOND-IMPORT-DIFFERS")
            return target

    else:
        tmp = tempfile.mkdtemp(prefix="c12_", dir="/dev/shm" if os.path.isdir("/dev/shm") else None)
        has_index = isinstance(df.index, pd.MultiIndex) or df.index.name is not None or any(n is not None for n in df.index.names)
        if lay["index"]:
            has_index = True
        if any(x[0] == "drop_column" for x in structural) and isinstance(df.index, pd.RangeIndex):
            has_index = False  # (the dimension column was removed together with the index: do not write a row counter in its place)
        if entry == "csv":
            path = os.path.join(tmp, "p.csv")
            df.to_csv(path, index=has_index)
            if ("ragged_csv",) in structural:
                with open(path) as fh:
                    lines = fh.read().splitlines()
                with open(path, "w") as fh:
                    fh.write("\n".join([lines[0]] + [ln + ",9.75" for ln in lines[1:]]) + "\n")
            reader = flodym.CSVParameterReader(parameter_files={"par": path}, allow_missing_values=flags[0], allow_extra_values=flags[1])
        else:
            path = os.path.join(tmp, "p.xlsx")
            with pd.ExcelWriter(path) as w:
                pd.DataFrame({"other": [1]}).to_excel(w, sheet_name="first", index=False)
                df.to_excel(w, sheet_name="data", index=has_index, merge_cells=False)
            reader = flodym.ExcelParameterReader(parameter_files={"par": path}, parameter_sheets={"par": "data"}, allow_missing_values=flags[0], allow_extra_values=flags[1])

        def call():
            try:
                return reader.read_parameter_values("par", dims)
            finally:
                try:
                    os.remove(path)
                    os.rmdir(tmp)
                except OSError:
                    pass

    st, got = attempt(call)
    if st == "raised" and "SECOND-IMPORT-DIFFERS" in str(got):
        return fail("second-use", "importing the same frame a second time into the same target gave different values")
    if want == "open":
        if st == "ok" and tuple(got.values.shape) != tuple(dims.shape):
            return fail("shape", "returned array has the wrong shape")
        return "open-outcome", None
    if want == "raise":
        if st != "raised":
            return fail("not-refused", f"the data must be refused under these flags but an array was returned")
        if target is not None and not (target.values.shape == tuple(dims.shape) and np.array_equal(target.values, np.full(dims.shape, 777.0))):
            return fail("partial-write", "the import raised but left a partially filled / modified target")
        return "refused-as-required", None
    if st == "raised":
        return fail("refused", f"the flags cover these faults but the import raised: {got}")
    if tuple(got.values.shape) != tuple(expected.shape) or not np.array_equal(got.values, expected):
        where = np.argwhere(got.values != expected)[0] if tuple(got.values.shape) == tuple(expected.shape) else None
        return fail("wrong-values", f"imported values differ from the records at {None if where is None else tuple(int(i) for i in where)}: got {None if where is None else got.values[tuple(where)]!r}, expected {None if where is None else expected[tuple(where)]!r}")
    return "tolerated-correctly", None


def run_large_case(flags, entry, long_dim=False):
    """an array with more than 32767 entries (3 dimensions, none of them long): some rows missing, one row with an
    unknown item - every present entry is placed under its labels, under any admissible flag combination"""
    from flodym import Dimension, DimensionSet, FlodymArray

    case = dict(large=True, flags=list(flags), entry=entry, long_dim=long_dim)
    shp = (2, 40000, 1) if long_dim else (41, 30, 29)  # long_dim: ONE dimension with more than 32767 items
    ds = DimensionSet(dim_list=[Dimension(name="Xdim", letter="x", items=list(range(1000, 1000 + shp[0])), dtype=int), Dimension(name="Ydim", letter="y", items=[f"y{i}" for i in range(shp[1])]), Dimension(name="Zdim", letter="z", items=[f"z{i}" for i in range(shp[2])])])
    v = np.arange(float(shp[0] * shp[1] * shp[2])).reshape(shp) * 0.5 + 1.0
    df = FlodymArray(dims=ds, values=v).to_df(index=False)
    df = df.iloc[list(range(11, len(df))) + list(range(11))].reset_index(drop=True)
    want = v.copy()
    if flags[0]:  # rows missing
        drop = [5, 20000, len(df) - 3]
        for k in drop:
            r = df.iloc[k]
            want[ds["x"].items.index(int(r["Xdim"])), ds["y"].items.index(r["Ydim"]), ds["z"].items.index(r["Zdim"])] = 0.0
        df = df.drop(index=drop).reset_index(drop=True)
    if flags[1]:
        df = pd.concat([df, pd.DataFrame({"Xdim": [1000], "Ydim": ["unknown"], "Zdim": ["z0"], "value": [5.5]})], ignore_index=True)
    if entry == "from_df":
        st, got = attempt(lambda: FlodymArray.from_df(dims=ds, df=df, allow_missing_values=flags[0], allow_extra_values=flags[1]))
    else:
        tgt = FlodymArray(dims=ds, values=np.full(ds.shape, 777.0))
        st, got = attempt(lambda: (tgt.set_values_from_df(df, allow_missing_values=flags[0], allow_extra_values=flags[1]), tgt)[1])
    tags = dict(entry=entry, header="names", wide=False, faults="large", flags=f"{int(flags[0])}{int(flags[1])}")
    if st == "raised":
        return "fail", dict(case=case, tags=dict(tags, kind="refused"), what=f"{shp} array ({v.size} entries) via {entry}, flags {flags}: refused although the flags cover the data: {got}")
    if got.values.shape != want.shape or not np.array_equal(got.values, want):
        bad = np.argwhere(got.values != want)
        return "fail", dict(case=case, tags=dict(tags, kind="wrong-values"), what=f"{shp} array ({v.size} entries) via {entry}, flags {flags}: {len(bad)} entries differ from the rows carrying their labels, first {tuple(int(i) for i in bad[0])}: {got.values[tuple(bad[0])]!r} instead of {want[tuple(bad[0])]!r}")
    return "tolerated-correctly", None


def bounds(tier):
    return dict(tables=[list(t) for t in (TABLES_Q if tier == "quick" else TABLES_T)], flags=FLAGS, entries=["from_df", "set_values_from_df", "csv", "excel"], fault_pairs=True)


def units(tier, seed):
    out = [dict(kind="large")]
    tables = TABLES_Q if tier == "quick" else TABLES_T
    for keys in tables:
        n = len(F.records(keys))
        for li, lay in enumerate(layouts_for(keys)):
            entries = ["from_df", "set_values_from_df", "csv"] + (["excel"] if li in (0, 1, 6) or tier == "thorough" else [])
            w = lay.get("wide")
            if w is not None and F.POOL[w][3] is None and not isinstance(F.POOL[w][2][0], str):
                # a wide table over an UNTYPED dimension with integer items does not survive CSV text (the headers come
                # back as text and nothing says they are numbers): same domain restriction as in C11
                entries = [e for e in entries if e != "csv"]
            out.append(dict(kind="singles", keys=keys, lay=lay, entries=entries))
            if lay["wide"] is None and (tier == "thorough" or (li == 0 and keys in (["T", "S"], ["N"])) or (li == 3 and keys == ["N", "Y"])) and n <= (6 if tier == "quick" else 12):
                sf = single_faults(keys, n, None)
                for a in range(len(sf)):
                    out.append(dict(kind="pairs", keys=keys, lay=lay, first=a))
    return out


def run_unit(u):
    if u["kind"] == "large":
        res = dict(evals=0, nontrivial=0, outcomes={}, fails=[], samples=[])
        for flags in FLAGS:
            for entry, long_dim in (("from_df", False), ("set_values_from_df", False), ("from_df", True)):
                oc, f = run_large_case(flags, entry, long_dim)
                res["evals"] += 1
                res["nontrivial"] += 1
                res["outcomes"][oc] = res["outcomes"].get(oc, 0) + 1
                if f:
                    res["fails"].append(f)
        return res
    keys, lay = u["keys"], u["lay"]
    n = len(F.records(keys))
    res = dict(evals=0, nontrivial=0, outcomes={}, fails=[], samples=[])

    def rec(oc, f, nt=True):
        if oc == "n/a":
            return
        res["evals"] += 1
        res["nontrivial"] += 1 if nt else 0
        res["outcomes"][oc] = res["outcomes"].get(oc, 0) + 1
        if f and len(res["fails"]) < 25:
            res["fails"].append(f)

    sf = single_faults(keys, n, lay["wide"])
    if u["kind"] == "singles":
        for entry in u["entries"]:
            for flags in FLAGS:
                rec(*run_case(keys, lay, [], flags, entry), nt=False)
                for f in sf:
                    rec(*run_case(keys, lay, [f], flags, entry))
        if keys == ["T", "S"] and lay["header"] == "names" and not lay["index"] and lay["wide"] is None:
            res["samples"].append(dict(keys=keys, layout=lay, faults=[["relabel", 2, "S"]], flags=[False, True], entry="set_values_from_df", meaning="row 2 relabelled to an unknown Sector: with allow_extra only, the row is ignored but its combination is now missing -> must raise and leave the pre-filled target untouched"))
        return res
    a = u["first"]
    for b in range(a + 1, len(sf)):
        fa, fb = sf[a], sf[b]
        for flags in FLAGS:
            for entry in ("from_df", "set_values_from_df"):
                rec(*run_case(keys, lay, [fa, fb], flags, entry))
    return res


def replay(case):
    if case.get("large"):
        oc, f = run_large_case(tuple(case["flags"]), case["entry"], case.get("long_dim", False))
        return [f] if f else []
    oc, f = run_case(case["keys"], case["layout"], [tuple(x) for x in case["faults"]], tuple(case["flags"]), case["entry"])
    return [f] if f else []
