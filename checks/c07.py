"""C07 - sum_to / sum_over / cumsum / cast_to / get_shares_over act by label and conserve totals.

E1: every array arrangement (0..4 dims quick, 5 thorough) x length pattern x storage provenance;
for each: every arrangement of every subset as sum_to target in four naming styles, every subset
for sum_over (two orders, three styles), every letter for cumsum (also in place), every
arrangement of every superset inside the universe as cast_to target and every non-superset
(must raise), every subset for get_shares_over, and the unknown-dimension calls (must raise).
Oracle: label-dict reference model + the composition identities of the statement.
"""

import itertools

from mc import observe, refmodel as R, spaces as S
from mc.util import attempt, short

PROPERTY = "C07"
LEVEL = "exploration"
ENGINE = "E1-enumeration"
TECHNIQUE = "bounded exhaustive enumeration of reduction/cast requests on the real code vs. a label-dict reference model"
RULE = (
    "complete enumeration of (length pattern) x (storage order of every dimension subset) x (storage "
    "provenance) x (request): sum_to over every ordered selection of the array's dims in 4 naming styles; "
    "sum_over every subset in 2 orders x 3 styles; cumsum along every letter (out of place and in place); "
    "cast_to every ordered superset within the universe, every non-superset must raise; get_shares_over every "
    "subset; unknown letter / name / foreign Dimension must raise; x 2-3 value assignments. Non-trivial = "
    "the array has a dimension with >= 2 items. Cases are distinct by construction."
    " Also: arrays derived from a parent, asked for totals and shares, then edited in place, over numeric unsorted items; DimensionSet objects as requests; uint8 shares."
)
ASSUMPTIONS = [
    "values from finite separating alphabets (distinct powers of two: a marginal sum identifies exactly the "
    "entries added; positional codes), not all reals",
    "bounds: universe of 4 dimensions quick / 5 thorough, <= 3 items per dimension",
    "shares compared with 1e-13 relative tolerance (flodym multiplies by the reciprocal of the total)",
]
LEVEL_TEXT = (
    "Every reduction, cumulative sum, cast and share request that can be formed over a universe of 4 (quick) / 5 "
    "(thorough) dimensions - all kept/summed/added subsets in all orders, all ways of naming dimensions, all "
    "storage orders and memory layouts of the source - is run on the real code and compared by label with the "
    "reference model; sums are exact because values are distinct powers of two."
)
LEVEL_NOTE = (
    "Trusted: CPython floats, numpy basic integer indexing for reading results, the reference model. Values are "
    "finite alphabets; > 5 dimensions and > 3 items per dimension are outside the bound."
)

ASSIGN = {
    "pow2": S.val_pow2(0),
    "base": S.val_base(4, 1),
    "signed": S.val_signed(2),
    "tiny": S.scaled(S.val_pow2(0), 2.0 ** -70),
    "huge": S.scaled(S.val_base(4, 1), 2.0 ** 80),
    "u8": S.val_base(2, 60),  # stored as uint8 (every entry <= 153 for 5 letters); cumulative sums exceed 255
    "int": S.val_base(4, 1),  # stored as int64
}
PATTERNS_Q = ("all2", "2323", "1213")
PATTERNS_T = ("all2", "all3", "2323", "1213", "3122")


def bounds(tier):
    return dict(universe=4 if tier == "quick" else 5, patterns=list(PATTERNS_Q if tier == "quick" else PATTERNS_T), provenances=list(S.PROVENANCES), assignments=list(ASSIGN))


def units(tier, seed):
    uni = S.LETTERS[:4] if tier == "quick" else S.LETTERS[:5]
    pats = PATTERNS_Q if tier == "quick" else PATTERNS_T
    out = []
    for pat in pats:
        for lx in S.arrangements(uni):
            for prov in S.PROVENANCES:
                if not lx and prov != "C":
                    continue
                if len(lx) == 5 and prov in ("F", "transposed"):
                    continue  # (five-dimensional arrays: C and strided-view buffers)
                out.append(dict(pattern=pat, lx="".join(lx), prov=prov, universe=uni))
    # the same requests put to an array WITH A PAST over numeric, unsorted items: the array is the result of
    # summing a larger parent array, its total and shares were already asked for, and its values were then
    # doubled in place
    for pat in (("2323",) if tier == "quick" else ("2323", "all3")):
        for lx in S.arrangements(uni):
            if len(lx) > 4:
                continue  # (thorough: the derived stage stays with arrays of up to four dimensions)
            for prov in S.PROVENANCES if tier == "quick" else ("C", "view"):
                if not lx and prov != "C":
                    continue
                out.append(dict(pattern=pat, lx="".join(lx), prov=prov, universe=uni, stage="derived"))
    return out


def styled(to, style, X):
    if style in ("dimset", "dimset-foreign"):
        # a DimensionSet object as the request: the array's own subset, or a set with the same letters and names
        # whose dimensions hold OTHER items of the same number (the result is labelled with the array's own items)
        from flodym import Dimension, DimensionSet

        if style == "dimset":
            return X.dims.get_subset(tuple(to))
        return DimensionSet(dim_list=[Dimension(name=X.dims[l].name, letter=l, items=[f"other {i}" for i in range(X.dims[l].len)]) for l in to])
    out = []
    for k, l in enumerate(to):
        s = style if style != "mixed" else ("letters", "names", "objects")[k % 3]
        out.append(l if s == "letters" else (S.NAMES[l] if s == "names" else X.dims[l]))
    return tuple(out)


def requests(lx, universe):
    """the complete request list for an array with dims lx"""
    for to in S.arrangements(lx):
        for style in ("letters", "names", "objects", "mixed"):
            if not to and style != "letters":
                continue
            if len(to) < 2 and style == "mixed":
                continue
            yield ("sum_to", "".join(to), style)
        if to:
            yield ("sum_to", "".join(to), "dimset")
            yield ("sum_to", "".join(to), "dimset-foreign")
    for sub in S.subsets(lx):
        for order in ("fwd", "rev"):
            if order == "rev" and len(sub) < 2:
                continue
            for style in ("letters", "names", "objects"):
                if not sub and style != "letters":
                    continue
                yield ("sum_over", "".join(sub if order == "fwd" else sub[::-1]), style)
    for l in lx:
        yield ("cumsum", l, "out")
        yield ("cumsum", l, "inplace")
    for tgt in S.arrangements(universe):
        yield ("cast_to", "".join(tgt), "")
    for sub in S.subsets(lx):
        yield ("shares", "".join(sub), "")
        if sub:  # a dimension named twice is still that one dimension
            yield ("shares", "".join(sub) + sub[-1], "")
            yield ("sum_over", "".join(sub) + sub[0], "letters")
    for bad in ("z", "Zeta", "foreign-object", "absent-letter", "absent-name"):
        for op in ("sum_to", "sum_over"):
            yield (op + "-unknown", bad, "")
    yield ("cumsum-unknown", "z", "")
    yield ("identity", "grand-total", "")


def run_case(pattern, lx, prov, universe, assign, req, stage="fresh"):
    items = S.items_for(pattern, family="numeric" if stage == "derived" else "std")
    lx = tuple(lx)
    fx = ASSIGN[assign](lx, items)
    op, arg, style = req
    case = dict(pattern=pattern, lx="".join(lx), prov=prov, universe=universe, assign=assign, req=list(req), stage=stage)
    if stage == "derived":
        f0 = fx
        if len(lx) < len(S.LETTERS):
            ext = [l for l in S.LETTERS if l not in lx][0]
            lp = lx[:1] + (ext,) + lx[1:]
            first = items[ext][0]
            fp = lambda lab: f0(tuple(v for l, v in zip(lp, lab) if l != ext)) if lab[lp.index(ext)] == first else 0.0
        else:  # no letter left for a parent: the array itself has the past
            lp, fp = lx, f0
        P = S.flodym_array(lp, items, fp, "Cint" if assign == "int" else prov)

        def derive():
            Xd = P.sum_to(lx)
            Xd.sum_values()
            Xd.get_shares_over(lx) if lx else None
            Xd.sum_to(lx[:1])
            Xd.values[...] = Xd.values * 2
            return Xd

        st0, X = attempt(derive)
        if st0 == "raised":
            return "fail", dict(case=case, tags=dict(op=op, kind="prelude-raised"), what=f"summing a parent array over {lp} to {lx}, asking for its total and shares and doubling its values in place raised {X}")
        fx = lambda lab: f0(lab) * 2
    else:
        X = S.flodym_array(lx, items, fx, "Cu8" if assign == "u8" else ("Cint" if assign == "int" else prov))
    mx = R.build(lx, items, fx)
    tol = 0.0

    def fail(kind, what, **kw):
        return "fail", dict(case=case, tags=dict(op=op, kind=kind), what=f"{op}({arg!r},{style}) on dims {''.join(lx)!r} lengths {pattern} storage {prov} values {assign}: {what}", **kw)

    must_raise = False
    if op == "sum_to":
        to = tuple(arg)
        want = R.marginal(mx, to)
        call = lambda: X.sum_to(styled(to, style, X))
    elif op == "sum_over":
        over = tuple(dict.fromkeys(arg))
        want = R.marginal(mx, tuple(l for l in lx if l not in over))
        call = lambda: X.sum_over(styled(tuple(arg), style, X))
    elif op == "cumsum":
        want = R.cumsum(mx, arg)
        if style == "out":
            call = lambda: X.cumsum(arg)
        else:

            def call():
                r = X.cumsum(arg, inplace=True)
                if r is not None:
                    raise AssertionError("in-place cumsum returned a value")
                return X

    elif op == "cast_to":
        tgt = tuple(arg)
        want = R.cast(mx, tgt, items)
        T = S.make_dimset(tgt, items)
        call = lambda: X.cast_to(T)
        must_raise = want is None
    elif op == "shares":
        over = tuple(arg)
        over_set = tuple(dict.fromkeys(arg))
        keep = tuple(l for l in lx if l not in over_set)
        tot = R.marginal(mx, keep)
        want = R.MArr(lx, mx.items, {lab: (v / tot.data[R.project(lab, lx, keep)] if tot.data[R.project(lab, lx, keep)] != 0 else None) for lab, v in mx.data.items()})
        call = lambda: X.get_shares_over(over)
        tol = 1e-13
    elif op in ("sum_to-unknown", "sum_over-unknown", "cumsum-unknown"):
        absent = [l for l in S.LETTERS if l not in lx] or ["z"]
        if arg == "z":
            a = "z"
        elif arg == "Zeta":
            a = "Zeta"
        elif arg == "foreign-object":
            a = S.make_dimension("z", ("z1", "z2"), name="Zeta")
        elif arg == "absent-letter":
            a = absent[0]
        else:
            a = S.NAMES.get(absent[0], "Zeta")
        must_raise = True
        want = None
        if op == "sum_to-unknown":
            call = lambda: X.sum_to((a,) + lx[:1])
        elif op == "sum_over-unknown":
            call = lambda: X.sum_over(lx[:1] + (a,))
        else:
            call = lambda: X.cumsum(a)
    elif op == "identity":
        # grand total preserved by every full reduction path; cast then sum back = original x number of added combos
        def call():
            tot = sum(mx.data.values())
            probs = []
            g = float(X.sum_to(()).values)
            if g != tot:
                probs.append(f"sum_to(()) = {g}, total = {tot}")
            g2 = float(X.sum_over(lx).values)
            if g2 != tot:
                probs.append(f"sum_over(all) = {g2}, total = {tot}")
            if float(X.sum_values()) != tot:
                probs.append("sum_values() differs from the total")
            added = tuple(l for l in universe if l not in lx)
            T = S.make_dimset(added + lx, items)
            n = 1
            for l in added:
                n *= len(items[l])
            back = observe.arr(X.cast_to(T).sum_to(lx))
            d = R.elementwise(mx, lambda v: v * n).diff(back)
            if d:
                probs.append("cast then sum back != original x number of added label combinations: " + d)
            return probs

        st, probs = attempt(call)
        if st == "raised":
            return fail("raised", f"raised {probs}")
        if probs:
            return fail("identity", "; ".join(probs))
        return "identity-holds", None
    else:
        raise ValueError(op)

    st, got = attempt(call)
    if style == "dimset-foreign" and st == "raised":
        return "refused-as-required", None  # refusing dimensions with foreign items is fine; mislabelling is not
    if must_raise:
        if st == "raised":
            return "refused-as-required", None
        return fail("must-raise", "must raise but returned")
    if st == "raised":
        return fail("raised", f"raised {got}")
    if not (op == "cumsum" and style == "inplace"):
        # second use of the same request on the same object: the answer must not change
        st_b, got_b = attempt(call)
        if st_b == "raised":
            return fail("raised", f"the same request raised on its second use: {got_b}")
        st_c, obs_b = attempt(lambda: observe.arr(got_b))
        st_d, obs_a = attempt(lambda: observe.arr(got))
        if st_c == "ok" and st_d == "ok" and (obs_a.letters != obs_b.letters or any(not R.close(v, obs_b.data.get(k, float("nan")), 0.0) for k, v in obs_a.data.items())):
            return fail("second-use", "the same request on the same array gave a different answer the second time")
    st2, obs = attempt(lambda: observe.arr(got))
    if st2 == "raised":
        return fail("malformed", f"result malformed: {obs}")
    if op == "shares":
        if obs.letters != want.letters:
            return fail("dims", f"result dims {obs.letters}, expected {want.letters}")
        for lab, w in want.data.items():
            if w is None:
                continue
            if not R.close(w, obs.data.get(lab, float("nan")), tol):
                return fail("values", f"share at {lab}: got {obs.data.get(lab)}, expected {w}", observed=short(obs.data), expected=short(want.data))
        # shares add up to one over the given dims wherever the total is non-zero
        sums = {}
        for lab, v in obs.data.items():
            k = R.project(lab, lx, keep)
            sums[k] = sums.get(k, 0.0) + v
        for k, s in sums.items():
            if tot.data[k] != 0 and abs(s - 1.0) > 1e-12:
                return fail("values", f"shares over {over} at {k} add up to {s}")
        return "agrees-with-model", None
    d = want.diff(obs, tol)
    if d is None:
        for l in obs.letters:
            if obs.names.get(l) != S.NAMES[l]:
                d = f"dimension letter {l!r} carries name {obs.names.get(l)!r}"
    if d is not None:
        kind = "dims" if ("letters" in d or "items" in d or "name" in d) else "values"
        return fail(kind, d, observed=short(obs.data), expected=short(want.data))
    return "agrees-with-model", None


def assigns_for(req, tier):
    op = req[0]
    if op in ("shares",):
        return ("pow2", "base", "signed", "tiny", "huge", "int", "u8")
    if op.endswith("unknown") or op == "identity":
        return ("base",)
    if tier == "quick":
        return ("pow2", "signed", "u8") if op in ("cumsum",) else ("pow2",) if op == "cast_to" else ("pow2", "base")
    return ("pow2", "base", "signed") + (("u8",) if op == "cumsum" else ())


def run_unit(u):
    lx = tuple(u["lx"])
    items = S.items_for(u["pattern"])
    nontriv = any(len(items[l]) >= 2 for l in lx)
    tier = "quick" if len(u["universe"]) == 4 else "thorough"
    res = dict(evals=0, nontrivial=0, outcomes={}, fails=[], samples=[])
    stage = u.get("stage", "fresh")
    for req in requests(lx, u["universe"]):
        for assign in assigns_for(req, tier):
            if stage == "derived" and assign == "u8":
                continue
            oc, f = run_case(u["pattern"], u["lx"], u["prov"], u["universe"], assign, req, stage)
            if stage == "derived":
                oc += " (derived array with a past, numeric unsorted items)"
            res["evals"] += 1
            res["nontrivial"] += 1 if nontriv else 0
            res["outcomes"][oc] = res["outcomes"].get(oc, 0) + 1
            if f:
                res["fails"].append(f)
    if u["lx"] == "cab" and u["pattern"] == "2323" and u["prov"] == "F":
        res["samples"] = [dict(array_dims="cab", pattern="2323", storage="F", request=["sum_to", "bc", "mixed"], meaning="x.sum_to(('b', 'Gamma')) must equal the marginal over a, ordered (b, c)")]
    return res


def replay(case):
    oc, f = run_case(case["pattern"], case["lx"], case["prov"], case["universe"], case["assign"], tuple(case["req"]), case.get("stage", "fresh"))
    return [f] if f else []
