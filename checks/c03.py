"""C03 - computed stocks conserve mass: stock change = net inflow x interval length.

E1: {SimpleFlowDriven, InflowDriven, StockDriven/manual, StockDriven/lapack} x every time grid x
lifetime parametrisation x quadrature x extra dims x parameter shape x driver (every unit impulse,
generic positive, mixed sign, prescribed stocks incl. decreasing ones and exact zeros).  Oracle: the
conservation identity with the MODEL's interval lengths (documented midpoint rule), the cumulative
form, check_stock_balance / get_stock_balance accept the computed stock and reject every single-entry
perturbation of stock / inflow / outflow beyond the threshold (and accept a tiny one).
"""

from mc import dsm, dsm_impl
from mc.util import attempt

PROPERTY = "C03"
LEVEL = "exploration"
ENGINE = "E1-enumeration"
TECHNIQUE = "bounded exhaustive enumeration of stock configurations; conservation identity checked with independently computed interval lengths"
RULE = (
    "complete enumeration of (stock class / solver: 4) x (time grid: all integer grids with steps in {1,2,5}, 3-5 "
    "items; quick: 13 representatives of unit / constant / uneven) x (13 lifetime parametrisations) x (inflow "
    "instants / quadrature orders) x (extra dims: none, p, p x q) x (scalar / per-label-and-cohort parameters) x "
    "(drivers: every unit impulse in time, generic positive, mixed sign; prescribed stocks: produced by an inflow-"
    "driven run, increasing, decreasing, hump, exact zero in a middle year, exact zeros at the end); plus, per "
    "configuration class, every single-entry perturbation (each array x each position x {+100, +1e-6}) of the "
    "computed stock handed to check_stock_balance. Non-trivial = grid is not the unit grid or driver is not "
    "all-zero. Distinct by construction."
    " Also: whole-number flows in integer arrays, sub-annual float grids, perturbations sized at the one-unit threshold (also at magnitudes of 1e9), small surviving shares judged relative to flow size, a flow-driven stock recomputed after its flows were balanced."
)
ASSUMPTIONS = [
    "identities hold to ~4e-15 relative on the unchanged code (calibrated); tolerance 1e-10 relative to max(|stock|, |flow| x dt)",
    "stock-driven configurations with a first-interval survival share below 0.05 are skipped (division by ~0)",
    "finite driver / parameter alphabets; grids up to 5 items",
]
LEVEL_TEXT = (
    "Every stock class is computed on every bounded configuration and the mass-conservation identity is evaluated "
    "for every time step and label with interval lengths recomputed from the documented rule; the library's own "
    "balance check is probed with every single-entry perturbation above and below its threshold."
)
LEVEL_NOTE = "Trusted: the scalar interval rule and closed-form survival (only used to decide which stock-driven cases are well conditioned). Real-valued drivers outside the alphabet are not covered."

TOL = 1e-10
RECOMPUTE_DRIVERS = ("mixed", "hump", "pos")  # these cases run on a stock that was computed before with other parameters and driver
QUADS_Q = [("start", 1), ("middle", 1), ("end", 1), ("end", 4)]  # n > 1 together with a non-default inflow_at (which is then ignored, as documented)
EXTRAS = ([], [("p", 2)], [("p", 2), ("q", 2)])
SHAPES = {0: [("scalar", "scalar"), ("t", "scalar"), ("T", "scalar")], 1: [("scalar", "scalar"), ("pt", "p")], 2: [("scalar", "scalar"), ("qp", "tq")]}


def bounds(tier):
    return dict(grids=len(dsm.QUICK_GRIDS if tier == "quick" else dsm.grids()), lifetimes=len(dsm.LT), quadratures=len(QUADS_Q if tier == "quick" else dsm.QUADS))


def units(tier, seed):
    gs = dsm.QUICK_GRIDS if tier == "quick" else dsm.grids()
    return [dict(grid=list(g), lt=li, tier=tier) for g in gs for li in range(len(dsm.LT))]


def drivers_for(kind, n, tier):
    if kind == "inflow":
        return [f"imp:{t}:0" for t in range(n)] + ["pos", "mixed", "mid0", "pos@tiny", "mixed@huge", "pos#int", "pos@huge"]
    if kind == "simple":
        return ["pos", "mixed", "pos#int", "pos=re"]
    return ["from-inflow", "inc", "dec", "hump", "mid0", "tail0", "hump@tiny", "dec@huge", "hump#int"] + ([f"imp:{t}:0" for t in range(n)] if tier == "thorough" else ["imp:0:0", f"imp:{n-2}:0"])


def shapes_dict(lt, pair):
    names = list(lt[1])
    d = {names[0]: pair[0]}
    if len(names) > 1:
        d[names[1]] = pair[1]
    return d


def run_simple(grid, extra, drv, case):
    import flodym

    n = len(grid)
    dims = dsm_impl.make_dims(grid, extra)
    rebalance = drv.endswith("=re")  # computed once, then the outflow is set equal to the inflow and the stock recomputed
    drv = drv[:-3] if rebalance else drv
    inflow = dsm_impl.driver_series(drv, n, extra)
    outflow = dsm_impl.driver_series("pos2" + ("#int" if drv.endswith("#int") else ""), n, extra)
    if drv.endswith("#int"):  # whole-number flows handed over in integer arrays
        import numpy as np

        fi, fo = flodym.StockArray(dims=dims, values=np.zeros(dims.shape, dtype=np.int64)), flodym.StockArray(dims=dims, values=np.zeros(dims.shape, dtype=np.int64))
        dsm_impl.fill(fi, inflow, extra)
        dsm_impl.fill(fo, outflow, extra)
        s = flodym.SimpleFlowDrivenStock(dims=dims, inflow=fi, outflow=fo)
    else:
        s = flodym.SimpleFlowDrivenStock(dims=dims)
        dsm_impl.fill(s.inflow, inflow, extra)
        dsm_impl.fill(s.outflow, outflow, extra)
    s.compute()
    if rebalance:
        dsm_impl.fill(s.outflow, inflow, extra)
        s.compute()
    return dict(obj=s, stock=dsm_impl.series_from_nd(s.stock.values, extra), inflow=dsm_impl.series_from_nd(s.inflow.values, extra), outflow=dsm_impl.series_from_nd(s.outflow.values, extra))


def run_case(kind, grid, li, quad, extra, pair, drv, probe):
    lt = dsm.LT[li]
    extra = [tuple(e) for e in extra]
    grid = tuple(grid)
    n = len(grid)
    labs = dsm_impl.labels(extra)
    shapes = shapes_dict(lt, pair)
    case = dict(kind=kind, grid=list(grid), lt=li, quad=list(quad), extra=[list(e) for e in extra], pair=list(pair), drv=drv, probe=probe)
    tags0 = dict(cls=kind, grid=dsm.grid_kind(grid), dist=lt[0])

    def fail(k, what):
        t = dict(tags0)
        t["kind"] = k
        return "fail", dict(case=case, tags=t, what=f"{kind} stock, {lt[0]}{lt[1]} shapes {shapes}, grid {list(grid)} extra {extra} quad {quad} driver {drv}: {what}")

    ill = False
    if kind != "simple":
        sf_m, _ = dsm.sf_table(grid, lt[0], dsm_impl.prm_fn(lt[1], shapes, extra), quad[0], quad[1], labs)
        if kind.startswith("stock"):
            if any(sf_m[(c, c, lab)] is None or sf_m[(c, c, lab)] < 1e-12 for c in range(n) for lab in labs):
                return "skipped-ill-conditioned", None
            # a small but non-zero surviving share makes the inferred inflow large; the conservation identity still
            # holds relative to the size of the flows, only the ABSOLUTE 1-unit threshold of check_stock_balance is
            # then a matter of rounding and is not asserted
            ill = any(sf_m[(c, c, lab)] < 0.05 for c in range(n) for lab in labs)

    def compute():
        if kind == "simple":
            return run_simple(grid, extra, drv, case)
        if kind == "inflow":
            d = dsm_impl.driver_series(drv, n, extra)
        elif drv == "from-inflow":
            r0 = dsm_impl.run_stock("inflow", grid, lt, quad, extra, shapes, dsm_impl.driver_series("pos", n, extra))
            d = r0["stock"]
        else:
            d = dsm_impl.driver_series(drv, n, extra)
        return dsm_impl.run_stock(kind, grid, lt, quad, extra, shapes, d, recompute=(drv in RECOMPUTE_DRIVERS), int_dtype=drv.endswith("#int"))

    st, res = attempt(compute)
    if st == "raised":
        return fail("raised", f"compute raised {res}")
    dt = dsm.dts(grid)
    scale = dsm_impl.scale_of(res, grid)
    for lab in labs:
        cum = 0.0
        for t in range(n):
            prev = res["stock"][(t - 1, lab)] if t > 0 else 0.0
            net = dt[t] * (res["inflow"][(t, lab)] - res["outflow"][(t, lab)])
            ds = res["stock"][(t, lab)] - prev
            if not abs(ds - net) <= TOL * scale:
                return fail("conservation", f"stock({t})-stock({t-1}) = {ds!r} but dt({t})*(inflow-outflow) = {net!r} at label {lab} (documented dt = {dt[t]})")
            cum += net
            if not abs(cum - res["stock"][(t, lab)]) <= TOL * scale * (t + 1):
                return fail("cumulative", f"cumulative net inflow {cum!r} != stock {res['stock'][(t, lab)]!r} at t={t}, label {lab}")
    if ill:
        return "conserves (small surviving share, relative to flow size)", None
    s = res["obj"]
    st, info = attempt(lambda: s.check_stock_balance())
    if st == "raised":
        return fail("self-check-rejects", f"check_stock_balance() rejects the freshly computed stock: {info}")
    st, bal = attempt(lambda: abs(s.get_stock_balance()).max())
    if st == "raised":
        return fail("raised", f"get_stock_balance raised {bal}")
    if not float(bal) <= 1e-9 * scale:
        return fail("self-balance", f"get_stock_balance() magnitude {float(bal)!r} on a computed stock")
    if probe:
        # every single-entry perturbation, above and below the threshold (1 unit of mass)
        for arr_name in ("stock", "inflow", "outflow"):
            arr = getattr(s, arr_name).values
            for t0 in range(n):
                for lab in labs:
                    idx = (t0,) + lab
                    old = arr[idx]
                    arr[idx] = old + 100.0
                    st, info = attempt(lambda: s.check_stock_balance())
                    arr[idx] = old
                    if st != "raised":
                        return fail("perturbation-accepted", f"{arr_name}[t={t0}, {lab}] perturbed by +100 is accepted by check_stock_balance")
                    arr[idx] = float("nan")
                    st, info = attempt(lambda: s.check_stock_balance())
                    arr[idx] = old
                    if st != "raised":
                        return fail("perturbation-accepted", f"{arr_name}[t={t0}, {lab}] set to NaN is accepted by check_stock_balance")
                    arr[idx] = old + 1e-6
                    st, info = attempt(lambda: s.check_stock_balance())
                    arr[idx] = old
                    if st == "raised":
                        return fail("tiny-perturbation-rejected", f"{arr_name}[t={t0}, {lab}] perturbed by 1e-6 is rejected: {info}")
            # perturbations sized at the threshold itself (1 unit of MASS): a single residual of 1.5 units is
            # rejected, one of 0.4 units accepted; a flow rate counts with the length of its interval
            for t0 in range(n):
                idx = (t0,) + labs[(t0 * 2) % len(labs)]
                old = arr[idx]
                unit = 1.0 if arr_name == "stock" else 1.0 / dt[t0]
                arr[idx] = old + 1.5 * unit
                st, info = attempt(lambda: s.check_stock_balance())
                arr[idx] = old
                if st != "raised":
                    return fail("perturbation-accepted", f"{arr_name}[t={t0}] perturbed by a residual of 1.5 mass units (interval length {dt[t0]}) is accepted by check_stock_balance")
                arr[idx] = old + 0.4 * unit
                st, info = attempt(lambda: s.check_stock_balance())
                arr[idx] = old
                if st == "raised":
                    return fail("tiny-perturbation-rejected", f"{arr_name}[t={t0}] perturbed by a residual of 0.4 mass units is rejected: {info}")
            # two opposite perturbations in different years must not cancel
            if n >= 2:
                a, b = (0,) + labs[0], (n - 1,) + labs[-1]
                o1, o2 = arr[a], arr[b]
                arr[a], arr[b] = o1 + 100.0, o2 - 100.0
                st, info = attempt(lambda: s.check_stock_balance())
                arr[a], arr[b] = o1, o2
                if st != "raised":
                    return fail("perturbation-accepted", f"opposite perturbations of {arr_name} at t=0 and t={n-1} are accepted by check_stock_balance")
    return "conserves", None


def run_unit(u):
    tier = u["tier"]
    grid, li = u["grid"], u["lt"]
    n = len(grid)
    res = dict(evals=0, nontrivial=0, outcomes={}, fails=[], samples=[])
    quads = QUADS_Q if tier == "quick" else dsm.QUADS
    unit_grid = dsm.grid_kind(grid) == "unit"
    import io
    import contextlib

    sink = io.StringIO()
    with contextlib.redirect_stdout(sink):
        for kind in ("simple",) + dsm_impl.KINDS:
            for ei, extra in enumerate(EXTRAS):
                for pi, pair in enumerate(SHAPES[ei]):
                    if kind == "simple" and (pi > 0 or li > 0):
                        continue
                    for qi, quad in enumerate(quads):
                        if kind == "simple" and qi > 0:
                            continue
                        if tier == "quick" and ei == 2 and qi not in (1, 3):
                            continue
                        for drv in drivers_for(kind, n, tier):
                            probe = qi == (1 if tier == "quick" else 0) and pi == 0 and drv in ("pos", "from-inflow", "pos@huge") and (tier == "thorough" or ei < 2)
                            oc, f = run_case(kind, grid, li, quad, extra, pair, drv, probe)
                            res["evals"] += 1
                            res["nontrivial"] += 0 if oc.startswith("skipped") else 1
                            res["outcomes"][oc] = res["outcomes"].get(oc, 0) + 1
                            if f:
                                res["fails"].append(f)
    if li == 5 and grid == [2000, 2001, 2003, 2008]:
        res["samples"].append(dict(kind="stock-lapack", grid=grid, lifetime=list(dsm.LT[5]), quad=["middle", 4], extra=[["p", 2]], driver="dec", meaning="prescribed decreasing stock on an uneven grid: stock(t)-stock(t-1) == dt(t)*(inflow(t)-outflow(t)) with dt = [1.0, 1.5, 3.5, 5.0]"))
    return res


def replay(case):
    import contextlib
    import io

    with contextlib.redirect_stdout(io.StringIO()):
        oc, f = run_case(case["kind"], case["grid"], case["lt"], tuple(case["quad"]), case["extra"], tuple(case["pair"]), case["drv"], case["probe"])
    return [f] if f else []
