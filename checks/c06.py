"""C06 - indexing by item labels reads and writes exactly the addressed entries.

E1: arrays of 1..4 dims (5 thorough) x length patterns (equal lengths included) x EVERY combination
of per-dimension selector {untouched, single item, subset Dimension in any item order, list (writes)}
x key form {dict by letter, by name, mixed, tuple of bare items, bare item, ellipsis, {}} x mode
{read, write number, write ndarray, write FlodymArray}; a long (5-item) dimension in every position
with ALL ordered selections of its items; an error universe with an item shared by two dimensions
(every tuple key up to length 3 over the item pool), python slices, non-subset Dimensions, unknown
dimension keys; items_where for every single entry and pair; split on every dimension.
"""

import itertools

import numpy as np

from mc import observe, refmodel as R, spaces as S
from mc.util import attempt, short

PROPERTY = "C06"
LEVEL = "exploration"
ENGINE = "E1-enumeration"
TECHNIQUE = "bounded exhaustive enumeration of selector combinations / key forms on the real code vs. a label-dict reference model"
RULE = (
    "complete enumeration of (array dims) x (length pattern) x (product over dimensions of selector kinds: "
    "untouched / single item / subset Dimension (ordered selections of items) / list of items for writes) x "
    "(key form: dict by letter, by name, mixed, tuple of items, bare item, ..., {}) x (read, write number, write "
    "ndarray, write FlodymArray); plus every ordered selection of a 5-item dimension in each axis position; plus "
    "every tuple key of length <= 3 over an item pool containing an item shared by two dimensions and an unknown "
    "item; slices, non-subset Dimensions, unknown dimension keys (must raise); items_where for every single "
    "entry and every pair; split along every dimension. Non-trivial = at least one selector present on an array "
    "with a dimension of >= 2 items. Cases are distinct by construction."
    " Also: the selector grid over labels that collide with letters, names and each other (ambiguous bare items must be refused), reverse-order dict keys, iterator item lists, typed look-alike keys, zero-valued items_where, Dimensions derived by model_copy from used ones."
)
ASSUMPTIONS = [
    "values are positional codes (distinct per entry); written values carry the region position, so a misplaced or "
    "transposed write is visible; not all reals",
    "bounds: <= 4 dims quick / 5 thorough, <= 3 items per dimension except one 5-item dimension",
    "reads with a list selector and a FlodymArray right-hand side under a list selector are not specified by the "
    "property and not checked",
]
LEVEL_TEXT = (
    "Every combination of selector kinds across the dimensions, in every key form and access mode, is executed on "
    "the real SubArrayHandler and compared with slice semantics written directly from the property (result dims = "
    "original with single selections dropped and subsets replaced; entries by label in requested item order); for "
    "writes the whole target is compared, so entries outside the region are covered too."
)
LEVEL_NOTE = "Trusted: numpy basic integer indexing for reading results, the reference model's select(). Bounded sizes; finite value alphabet."

SUBL = "vwxyz"  # letters of subset Dimensions (not used by any array)
ARRAYS_Q = ("a", "ab", "cab", "abcd")
ARRAYS_T = ("a", "ab", "ba", "cab", "abc", "abcd", "dbca")
PATTERNS = ("all2", "all3", "2323")
LONG = {"5222": (5, 2, 2, 2, 2), "2522": (2, 5, 2, 2, 2), "2252": (2, 2, 5, 2, 2)}
S.PATTERNS.update(LONG)
MODES = ("read", "w-number", "w-ndarray", "w-flodym", "w-flodym-rev")


FAMILY = "std"  # label family of the unit being explored ("tricky": labels colliding with letters, names, each other)


def _items(pattern):
    return S.items_for(pattern, family=FAMILY)


def bounds(tier):
    return dict(arrays=list(ARRAYS_Q if tier == "quick" else ARRAYS_T), patterns=list(PATTERNS), long_patterns=list(LONG), modes=list(MODES))


def ordered_selections(items, kmax=None):
    n = len(items)
    for k in range(1, (kmax or n) + 1):
        yield from itertools.permutations(items, k)


def selectors(items, level, write, include_sub=True):
    """per-dimension selector alphabet; level 'q' = representative set, 'full' = all ordered selections"""
    n = len(items)
    out = [["none"]]
    singles = list(items) if level == "full" else list(dict.fromkeys([items[0], items[-1]]))
    out += [["item", it] for it in singles]
    if level == "full":
        sels = [list(s) for s in ordered_selections(items)]
    else:
        sels = [[items[-1]], [items[0], items[-1]], [items[-1], items[0]], list(items), list(items[1:]) + list(items[:1])]
        seen = []
        for s in sels:
            if len(set(s)) == len(s) and s not in seen:
                seen.append(s)
        sels = seen
    if include_sub:
        out += [["sub", s] for s in sels]
    if write:
        lsel = sels if level == "full" else sels[:3]
        out += [["list", s] for s in lsel]
    return out


def units(tier, seed):
    out = []
    arrays = ARRAYS_Q if tier == "quick" else ARRAYS_T
    for pat in PATTERNS:
        for dims in arrays:
            if tier == "thorough" and len(dims) <= 3:
                level = "full"
            else:
                level = "q"
            items = _items(pat)
            for first in selectors(items[dims[0]], level, True):
                out.append(dict(kind="grid", pattern=pat, dims=dims, level=level, first=first))
    # the same grid over dimensions whose item labels collide with letters, names, each other, "" and integers
    global FAMILY
    FAMILY = "tricky"
    for pat in (("2323",) if tier == "quick" else ("2323", "all3")):
        for dims in arrays:
            items = _items(pat)
            for first in selectors(items[dims[0]], "q", True):
                out.append(dict(kind="grid", pattern=pat, dims=dims, level="q", first=first, family="tricky"))
            out.append(dict(kind="where", pattern=pat, dims=dims, family="tricky"))
    FAMILY = "std"
    if tier == "thorough":
        for first in selectors(_items("all2")["a"], "q", True):
            out.append(dict(kind="grid", pattern="all2", dims="abcde", level="q", first=first))
    # one long dimension in each position: all ordered selections of its 5 items
    for pat, lens in LONG.items():
        pos = lens.index(5)
        for dims in (("abc",) if tier == "quick" else ("abc", "abcd")):
            items = _items(pat)
            longsel = list(ordered_selections(items[S.LETTERS[pos]], None if tier == "thorough" else 4))
            for chunk in range(0, len(longsel), 40):
                out.append(dict(kind="long", pattern=pat, dims=dims, pos=pos, sels=[list(s) for s in longsel[chunk : chunk + 40]]))
    for k in range(4):
        out.append(dict(kind="errors", part=k))
    for pat in PATTERNS:
        for dims in arrays:
            out.append(dict(kind="where", pattern=pat, dims=dims))
    return out


# ------------------------------------------------------------------------------------------------


def make_target(pattern, dims, prov="C"):
    items = _items(pattern)
    f = S.val_base(6, 0)(tuple(dims), items)
    X = S.flodym_array(tuple(dims), items, f, prov)
    m = R.build(tuple(dims), items, f)
    return X, m, items


def build_key(dims, sel, form, X):
    """turn the per-dimension selector list into an actual key object; None if the form does not apply"""
    present = [(l, s) for l, s in zip(dims, sel) if s[0] != "none"]
    if form in ("ellipsis", "emptydict"):
        if present:
            return None
        return ("key", Ellipsis if form == "ellipsis" else {})
    if not present:
        return None

    def val(l, s):
        if s[0] == "item":
            return s[1]
        if s[0] == "list":
            return list(s[1])
        return S.make_dimension(SUBL[S.LETTERS.index(l)], s[1], name="Sub" + l.upper())

    if form == "dict-letter":
        return ("key", {l: val(l, s) for l, s in present})
    if form == "dict-iter":  # item lists handed over as one-shot iterators (accepting them is optional, mis-writing is not)
        if not any(s[0] == "list" for _, s in present):
            return None
        return ("key", {l: (iter(list(s[1])) if s[0] == "list" else val(l, s)) for l, s in present})
    if form == "dict-letter-rev":  # the entries listed in reverse dimension order
        if len(present) < 2:
            return None
        return ("key", {l: val(l, s) for l, s in reversed(present)})
    if form == "dict-name":
        return ("key", {S.NAMES[l]: val(l, s) for l, s in present})
    if form == "dict-mixed":
        if len(present) < 2:
            return None
        return ("key", {(l if k % 2 == 0 else S.NAMES[l]): val(l, s) for k, (l, s) in enumerate(present)})
    if form == "tuple":
        if any(s[0] == "sub" for _, s in present):
            return None
        flat = []
        for l, s in present:
            if s[0] == "item":
                flat.append(s[1])
            else:
                if len(s[1]) < 2:
                    return None  # a one-element list cannot be expressed as a tuple of items
                flat.extend(s[1])
        if len(flat) < 2:
            return None
        return ("key", tuple(flat))
    if form == "tuple-rev":
        r = build_key(dims, sel, "tuple", X)
        if r is None or len(present) < 2:
            return None
        # items of different dimensions given in reverse dimension order (order inside a dimension kept)
        flat = []
        for l, s in reversed(present):
            flat.extend([s[1]] if s[0] == "item" else s[1])
        return ("key", tuple(flat))
    if form == "bare":
        if len(present) != 1 or present[0][1][0] != "item":
            return None
        return ("key", present[0][1][1])
    raise ValueError(form)


FORMS = ("dict-letter", "dict-iter", "dict-letter-rev", "dict-name", "dict-mixed", "tuple", "tuple-rev", "bare", "ellipsis", "emptydict")


def model_sel(dims, sel):
    ms = {}
    has_list = False
    for l, s in zip(dims, sel):
        if s[0] == "item":
            ms[l] = ("item", s[1])
        elif s[0] == "sub":
            ms[l] = ("sub", SUBL[S.LETTERS.index(l)], tuple(s[1]))
        elif s[0] == "list":
            ms[l] = ("sub", l, tuple(s[1]))  # region keeps the letter, items in list order
            has_list = True
    return ms, has_list


def run_case(pattern, dims, sel, form, mode):
    dims = tuple(dims)
    X, m, items = make_target(pattern, dims)
    kb = build_key(dims, sel, form, X)
    case = dict(kind="grid", pattern=pattern, dims="".join(dims), sel=sel, form=form, mode=mode, family=FAMILY)
    if kb is None:
        return "n/a", None
    key = kb[1]
    if form in ("tuple", "tuple-rev", "bare"):
        # items given without naming their dimension: one that occurs in several of the array's dimensions must raise
        flat = list(key) if isinstance(key, tuple) else [key]
        amb = [it for it in flat if sum(1 for l in dims if any(it == o and type(it) is type(o) for o in items[l])) != 1]
        if amb:
            before = X.values.copy()
            if mode == "read":
                st, got = attempt(lambda: X[key])
            else:
                st, got = attempt(lambda: X.__setitem__(key, -7.5))
            if st != "raised":
                return "fail", dict(case=case, tags=dict(mode=mode, form=form, kind="ambiguous-accepted"), what=f"{mode} with key {key!r} on dims {''.join(dims)!r} (items {[items[l] for l in dims]}): item(s) {amb!r} occur in several dimensions and no dimension is named, yet no error was raised")
            if not np.array_equal(before, X.values):
                return "fail", dict(case=case, tags=dict(mode=mode, form=form, kind="ambiguous-changed"), what=f"refused {mode} with ambiguous key {key!r} changed the array")
            return "ambiguous-item-refused", None
    ms, has_list = model_sel(dims, sel)
    kinds = "".join({"none": "-", "item": "S", "sub": "D", "list": "L"}[s[0]] for s in sel)

    def fail(kind, what, **kw):
        return "fail", dict(case=case, tags=dict(mode=mode, form=form, kinds=kinds, kind=kind), what=f"{mode} with key form {form}, selectors {sel} on dims {''.join(dims)!r} lengths {pattern}: {what}", **kw)

    region, src = R.select(m, ms)
    if mode == "read":
        if has_list:
            return "n/a", None
        # the array has been read before, with other keys (nothing may be remembered from earlier accesses)
        attempt(lambda: X[...])
        attempt(lambda: X[{dims[-1]: items[dims[-1]][0]}])
        st, got = attempt(lambda: X[key])
        if st == "raised":
            return fail("raised", f"read raised {got}")
        st2, obs = attempt(lambda: observe.arr(got))
        if st2 == "raised":
            return fail("malformed", f"result malformed: {obs}")
        d = region.diff(obs)
        if d is None:
            for l, s in zip(dims, sel):
                if s[0] == "sub" and obs.names.get(SUBL[S.LETTERS.index(l)]) != "Sub" + l.upper():
                    d = "replaced dimension does not carry the subset Dimension's name"
        if d:
            return fail("dims" if ("letters" in d or "items" in d) else "values", d, observed=short(obs.data), expected=short(region.data))
        # the source must be untouched by a read
        after = observe.arr(X)
        if m.diff(after):
            return fail("source-changed", "reading changed the source array")
        return "read-agrees", None
    # ---- writes ----
    labs = list(region.labels())
    want = m.copy()
    if mode == "w-number":
        rhs = -7.5
        for lab in labs:
            want.data[src[lab]] = -7.5
    else:
        shape = tuple(len(region.items[l]) for l in region.letters)
        vals = np.zeros(shape)
        table = {}
        for k, idx in enumerate(itertools.product(*[range(n) for n in shape])):
            lab = tuple(region.items[l][i] for l, i in zip(region.letters, idx))
            vals[idx] = 1000.0 + k
            table[lab] = 1000.0 + k
        for lab in labs:
            want.data[src[lab]] = table[lab]
        if mode == "w-ndarray":
            rhs = vals
        else:
            if has_list:
                return "n/a", None
            if mode == "w-flodym-rev" and len(region.letters) < 2:
                return "n/a", None
            from flodym import DimensionSet, FlodymArray

            dl = []
            for l in region.letters:
                if l in dims:
                    dl.append(X.dims[l])
                else:
                    dl.append(S.make_dimension(l, region.items[l], name="Sub" + dims[[SUBL[S.LETTERS.index(x)] for x in dims].index(l)].upper()))
            if mode == "w-flodym-rev":  # the same right-hand side stored with its dimensions in reverse order
                dl = dl[::-1]
                vals = np.ascontiguousarray(vals.transpose(tuple(reversed(range(vals.ndim)))))
            rhs = FlodymArray(dims=DimensionSet(dim_list=dl), values=vals)

    # the array has been written before, through another key (values restored afterwards)
    keep = X.values.copy()
    attempt(lambda: X.__setitem__({dims[0]: items[dims[0]][-1]}, 0.0))
    X.values[...] = keep

    def do():
        X[key] = rhs

    st, got = attempt(do)
    if st == "raised" and form == "dict-iter":
        # an implementation may insist on real lists; then the target must be untouched
        if not np.array_equal(keep, X.values):
            return fail("changed-on-error", f"the refused write (raised {got}) changed the target")
        return "iterator-key-refused", None
    if st == "raised":
        return fail("raised", f"write raised {got}")
    st2, obs = attempt(lambda: observe.arr(X))
    if st2 == "raised":
        return fail("malformed", f"target malformed after write: {obs}")
    d = want.diff(obs)
    if d:
        return fail("dims" if ("letters" in d or "items" in d) else "values", "after the write " + d, observed=short(obs.data, 90), expected=short(want.data, 90))
    return "write-agrees", None


def grid_combos(pattern, dims, level, first):
    items = _items(pattern)
    rest = [selectors(items[l], level, True) for l in dims[1:]]
    for tail in itertools.product(*rest):
        yield [first] + [list(t) for t in tail]


def run_grid(u, res):
    dims = u["dims"]
    items = _items(u["pattern"])
    nontriv_arr = any(len(items[l]) >= 2 for l in dims)
    for sel in grid_combos(u["pattern"], dims, u["level"], u["first"]):
        has_list = any(s[0] == "list" for s in sel)
        anysel = any(s[0] != "none" for s in sel)
        for form in FORMS:
            for mode in MODES:
                if has_list and mode in ("read", "w-flodym", "w-flodym-rev"):
                    continue
                oc, f = run_case(u["pattern"], dims, sel, form, mode)
                if oc == "n/a":
                    continue
                res["evals"] += 1
                res["nontrivial"] += 1 if (nontriv_arr and anysel) else 0
                res["outcomes"][oc] = res["outcomes"].get(oc, 0) + 1
                if f:
                    res["fails"].append(f)


def run_long(u, res):
    dims = u["dims"]
    pos = u["pos"]
    items = _items(u["pattern"])
    others = []
    for k, l in enumerate(dims):
        if k == pos:
            continue
        others.append([["none"], ["item", items[l][-1]], ["sub", [items[l][1], items[l][0]]]])
    for longitems in u["sels"]:
        for kind in ("sub", "list"):
            for rest in itertools.product(*others):
                sel = [list(r) for r in rest]
                sel.insert(pos, [kind, list(longitems)])
                for form in ("dict-letter", "dict-name", "tuple"):
                    for mode in MODES:
                        if kind == "list" and mode in ("read", "w-flodym", "w-flodym-rev"):
                            continue
                        oc, f = run_case(u["pattern"], dims, sel, form, mode)
                        if oc == "n/a":
                            continue
                        res["evals"] += 1
                        res["nontrivial"] += 1
                        res["outcomes"][oc] = res["outcomes"].get(oc, 0) + 1
                        if f:
                            res["fails"].append(f)


# ---- error universe ------------------------------------------------------------------------------

ERR_DIMS = [("o", "Origin", ["EUR", "USA"]), ("d", "Destination", ["USA", "CHN"]), ("t", "Time", [1990, 2000, 2010]), ("m", "Material", ["steel", "wood"])]
POOL = ["EUR", "USA", "CHN", 2000, "steel", "nope", 2010]


def err_array(typed=False):
    from flodym import Dimension, DimensionSet, FlodymArray

    ds = DimensionSet(dim_list=[Dimension(name=n, letter=l, items=list(it), dtype=((int if l == "t" else str) if typed else None)) for l, n, it in ERR_DIMS])
    v = np.arange(24.0).reshape(2, 2, 3, 2) + 1
    X = FlodymArray(dims=ds, values=v.copy())
    items = {l: tuple(it) for l, _, it in ERR_DIMS}
    m = R.MArr(tuple(l for l, _, _ in ERR_DIMS), items, observe.nd_by_label(v, [items[l] for l, _, _ in ERR_DIMS]))
    return X, m


def err_cases(part):
    """every tuple key of length 1..3 over the pool + the explicit ill-formed keys"""
    cases = []
    for k in (1, 2, 3):
        for tup in itertools.permutations(POOL, k):
            cases.append(("tuple", list(tup)))
    ill = [
        ("slice", "0:1"), ("slice-tuple", ""), ("dict-slice", ""), ("int-position", ""), ("nonsubset-dim", ""), ("nonsubset-dim-partial", ""),
        ("unknown-dim-key", ""), ("unknown-item-in-dict", ""), ("unknown-item-in-list", ""), ("ambiguous-bare", ""), ("named-ambiguous-ok", "o"),
        ("named-ambiguous-ok", "d"), ("named-ambiguous-ok", "Origin"), ("wrong-dim-for-item", ""), ("bare-int-item", ""),
        ("unknown-number", 1995), ("unknown-number", 1980), ("unknown-number", 2020), ("unknown-number", 2005), ("unknown-number", 2000.5),
        ("unknown-number-bare", 1995), ("unknown-number-in-list", 1995), ("unknown-number-in-list", 2020), ("unknown-number-by-name", 2005),
        ("unknown-number-in-subset", 1995),
        ("typed-lookalike", "2000"), ("typed-lookalike", 2000.5), ("typed-lookalike", "1990"), ("typed-lookalike-name", "2010"), ("typed-lookalike-bare", "2010"),
        ("typed-lookalike-list", "2010"), ("typed-lookalike-list", 2000.5), ("typed-lookalike-text-dim", 5), ("typed-lookalike-text-dim", 0),
    ]
    cases += [("ill", list(i)) for i in ill]
    return [c for i, c in enumerate(cases) if i % 4 == part]


def run_err_case(kind, spec, mode):
    from flodym import Dimension

    X, m = err_array(typed=(kind == "ill" and str(spec[0]).startswith("typed")))
    case = dict(kind="errors", ekind=kind, spec=spec, mode=mode)

    def fail(k, what, **kw):
        return "fail", dict(case=case, tags=dict(mode=mode, form=kind, kind=k, spec=str(spec[0]) if kind == "ill" else "tuple"), what=f"{mode} with {kind} key {spec}: {what}", **kw)

    expect_sel = None
    must_raise = False
    if kind == "tuple":
        key = tuple(spec) if len(spec) > 1 else spec[0]
        if "USA" in spec or "nope" in spec:
            must_raise = True
        else:
            per = {}
            owner = {"EUR": "o", "CHN": "d", 2000: "t", 2010: "t", "steel": "m"}
            for it in spec:
                per.setdefault(owner[it], []).append(it)
            expect_sel = {l: (("item", v[0]) if len(v) == 1 else ("sub", l, tuple(v))) for l, v in per.items()}
            if mode == "read" and any(len(v) > 1 for v in per.values()):
                return "n/a", None
    else:
        name, arg = spec
        must_raise = True
        if name == "slice":
            key = slice(0, 1)
        elif name == "slice-tuple":
            key = (slice(None), "EUR")
        elif name == "dict-slice":
            key = {"o": slice(0, 1)}
        elif name == "int-position":
            key = 0
        elif name == "nonsubset-dim":
            key = {"m": Dimension(name="Other", letter="q", items=["glass", "paper"])}
        elif name == "nonsubset-dim-partial":
            key = {"m": Dimension(name="Other", letter="q", items=["steel", "glass"])}
        elif name == "unknown-dim-key":
            key = {"k": "steel"}
        elif name == "unknown-item-in-dict":
            key = {"m": "glass"}
        elif name == "unknown-item-in-list":
            key = {"m": ["steel", "glass"]}
            if mode == "read":
                return "n/a", None
        elif name == "ambiguous-bare":
            key = "USA"
        elif name == "wrong-dim-for-item":
            key = {"o": "CHN"}
        elif name == "named-ambiguous-ok":
            key = {arg: "USA"}
            must_raise = False
            expect_sel = {("o" if arg in ("o", "Origin") else "d"): ("item", "USA")}
        elif name == "bare-int-item":
            key = 2010
            must_raise = False
            expect_sel = {"t": ("item", 2010)}
        elif name == "unknown-number":
            key = {"t": arg}
        elif name == "unknown-number-by-name":
            key = {"Time": arg}
        elif name == "unknown-number-bare":
            key = arg
        elif name == "unknown-number-in-list":
            key = {"t": [2000, arg]}
            if mode == "read":
                return "n/a", None
        elif name == "unknown-number-in-subset":
            key = {"t": Dimension(name="Years", letter="y", items=[2000, arg])}
        # dimensions with a declared dtype: a key of another type that merely LOOKS like a label is still unknown
        elif name == "typed-lookalike":
            key = {"t": arg}
        elif name == "typed-lookalike-name":
            key = {"Time": arg}
        elif name == "typed-lookalike-bare":
            key = arg
        elif name == "typed-lookalike-list":
            key = {"t": [1990, arg]}
            if mode == "read":
                return "n/a", None
        elif name == "typed-lookalike-text-dim":
            key = {"m": arg}
    if mode == "read":
        st, got = attempt(lambda: X[key])
    else:

        def do():
            X[key] = -3.25

        st, got = attempt(do)
    if must_raise:
        if st == "raised":
            unchanged = m.diff(observe.arr(X)) is None
            if not unchanged:
                return fail("changed-on-error", "the rejected access modified the array")
            return "refused-as-required", None
        return fail("must-raise", "must raise but was accepted")
    if st == "raised":
        return fail("raised", f"raised {got}")
    region, src = R.select(m, expect_sel)
    if mode == "read":
        st2, obs = attempt(lambda: observe.arr(got))
        if st2 == "raised":
            return fail("malformed", str(obs))
        d = region.diff(obs)
        if d:
            return fail("values", d)
        return "read-agrees", None
    want = m.copy()
    for lab in region.labels():
        want.data[src[lab]] = -3.25
    d = want.diff(observe.arr(X))
    if d:
        return fail("values", "after the write " + d)
    return "write-agrees", None


def run_errors(u, res):
    for kind, spec in err_cases(u["part"]):
        for mode in ("read", "w-number"):
            oc, f = run_err_case(kind, spec, mode)
            if oc == "n/a":
                continue
            res["evals"] += 1
            res["nontrivial"] += 1
            res["outcomes"][oc] = res["outcomes"].get(oc, 0) + 1
            if f:
                res["fails"].append(f)


# ---- items_where / split -------------------------------------------------------------------------


def run_where_case(pattern, dims, marked, prov="C"):
    dims = tuple(dims)
    X, m, items = make_target(pattern, dims, prov)
    labs = list(m.labels())
    case = dict(kind="where", pattern=pattern, dims="".join(dims), marked=marked, prov=prov, family=FAMILY)
    want = sorted(tuple(str(x) for x in labs[k]) for k in marked)
    for mark, cond, txt in ((-99.0, lambda v: v == -99.0, "v == -99"), (0.0, lambda v: v == 0, "v == 0"), (0.0, lambda v: v <= 0, "v <= 0")):
        # (all other entries are positive; the marked ones hold -99 resp. exactly zero)
        for k in marked:
            X.values[tuple(items[l].index(it) for l, it in zip(dims, labs[k]))] = mark
        st, got = attempt(lambda: X.items_where(cond))
        if st == "raised":
            return "fail", dict(case=case, tags=dict(mode="items_where", kind="raised"), what=f"items_where({txt}) raised {got}")
        rows = sorted(tuple(str(x) for x in r) for r in np.asarray(got).reshape(-1, len(dims)).tolist())
        if rows != want:
            return "fail", dict(case=case, tags=dict(mode="items_where", kind="values"), what=f"items_where({txt}) on dims {''.join(dims)!r} lengths {pattern}: reported {rows}, entries are at {want}")
    return "where-agrees", None


def run_derived_dims_case(pattern, dims, how):
    """an array over Dimension objects that were DERIVED (pydantic model_copy with re-ordered items / deep copy) from
    dimensions that had already been used for label lookups: every single-item read and list write by label"""
    import copy

    from flodym import DimensionSet, FlodymArray

    dims = tuple(dims)
    X0, m0, items0 = make_target(pattern, dims)
    case = dict(kind="derived-dims", pattern=pattern, dims="".join(dims), how=how, family=FAMILY)
    for l in dims:  # the original dimensions are used for lookups first
        for it in items0[l]:
            attempt(lambda: X0[{l: it}])
            attempt(lambda: X0[it])
    items = {l: tuple(reversed(items0[l])) if how != "deepcopy" else tuple(items0[l]) for l in dims}
    dl = []
    for l in dims:
        d0 = X0.dims[l]
        if how == "model_copy":
            dl.append(d0.model_copy(update={"items": list(items[l])}))
        elif how == "model_copy-deep":
            dl.append(d0.model_copy(update={"items": list(items[l])}, deep=True))
        else:
            dl.append(copy.deepcopy(d0))
    f = S.val_base(6, 0)(dims, items)
    st, Y = attempt(lambda: FlodymArray(dims=DimensionSet(dim_list=dl), values=S.ndarray_for(dims, items, f, "C")))
    if st == "raised":
        return "derived-dimension-refused", None
    m = R.build(dims, items, f)

    def fail(what):
        return "fail", dict(case=case, tags=dict(mode="derived-dims", kind="values"), what=f"array over dimensions derived by {how} (items {[items[l] for l in dims]}) from dimensions used before: {what}")

    for l in dims:
        for it in items[l]:
            region, src = R.select(m, {l: ("item", it)})
            st, got = attempt(lambda: observe.arr(Y[{l: it}]))
            if st == "raised":
                return fail(f"read {{{l!r}: {it!r}}} raised {got}")
            d = region.diff(got)
            if d:
                return fail(f"read {{{l!r}: {it!r}}}: {d}")
            keep = Y.values.copy()
            st, info = attempt(lambda: Y.__setitem__({l: [it]}, -7.5))
            want = m.copy()
            for lab in region.labels():
                want.data[src[lab]] = -7.5
            obs = observe.arr(Y)
            Y.values[...] = keep
            if st == "raised":
                return fail(f"write {{{l!r}: [{it!r}]}} raised {info}")
            d = want.diff(obs)
            if d:
                return fail(f"write {{{l!r}: [{it!r}]}}: {d}")
    st, got = attempt(lambda: Y.split(dims[0]))
    if st == "ok" and list(got.keys()) != list(items[dims[0]]):
        return fail(f"split({dims[0]!r}) keys {list(got.keys())}")
    return "derived-dims-agree", None


def run_split_case(pattern, dims, letter):
    dims = tuple(dims)
    X, m, items = make_target(pattern, dims)
    case = dict(kind="split", pattern=pattern, dims="".join(dims), letter=letter, family=FAMILY)
    st, got = attempt(lambda: X.split(letter))
    if st == "raised":
        return "fail", dict(case=case, tags=dict(mode="split", kind="raised"), what=f"split({letter!r}) raised {got}")
    if list(got.keys()) != list(items[letter]):
        return "fail", dict(case=case, tags=dict(mode="split", kind="keys"), what=f"split({letter!r}) keys {list(got.keys())} != items {list(items[letter])}")
    for it, part in got.items():
        region, _ = R.select(m, {letter: ("item", it)})
        st2, obs = attempt(lambda: observe.arr(part))
        if st2 == "raised" or region.diff(obs):
            return "fail", dict(case=case, tags=dict(mode="split", kind="values"), what=f"split({letter!r})[{it!r}] on dims {''.join(dims)!r} lengths {pattern}: {obs if st2 == 'raised' else region.diff(obs)}")
    return "split-agrees", None


LONG_ITEMS = {"m": ("Construction and demolition waste", "Municipal solid waste (mixed, unsorted fraction)", "x"), "t": (1990, 2000), "r": ("a region with a rather long name", "EU")}


def run_where_long_case(dims, marked):
    """labels longer than any fixed-width string buffer, and integer labels"""
    from flodym import Dimension, DimensionSet, FlodymArray

    case = dict(kind="where-long", dims=dims, marked=marked)
    names = {"m": "Material", "t": "Time", "r": "Region"}
    ds = DimensionSet(dim_list=[Dimension(name=names[l], letter=l, items=list(LONG_ITEMS[l])) for l in dims])
    X = FlodymArray(dims=ds, values=np.zeros(ds.shape))
    labs = list(itertools.product(*[LONG_ITEMS[l] for l in dims]))
    for k in marked:
        X.values[tuple(LONG_ITEMS[l].index(it) for l, it in zip(dims, labs[k]))] = -99.0
    st, got = attempt(lambda: X.items_where(lambda v: v == -99.0))
    if st == "raised":
        return "fail", dict(case=case, tags=dict(mode="items_where", kind="raised"), what=f"items_where raised {got}")
    rows = sorted(tuple(str(x) for x in r) for r in np.asarray(got).reshape(-1, len(dims)).tolist())
    want = sorted(tuple(str(x) for x in labs[k]) for k in marked)
    if rows != want:
        return "fail", dict(case=case, tags=dict(mode="items_where", kind="labels"), what=f"items_where on dims {dims!r} with long / integer labels: reported {rows}, entries are at {want}")
    parts = X.split(dims[0])
    if [str(k) for k in parts.keys()] != [str(i) for i in LONG_ITEMS[dims[0]]]:
        return "fail", dict(case=case, tags=dict(mode="split", kind="keys"), what=f"split keys {list(parts.keys())}")
    return "where-agrees", None


DERIVED_HOW = ("model_copy", "model_copy-deep", "deepcopy")


def run_where(u, res):
    if u.get("family", "std") == "std":
        for how in DERIVED_HOW:
            oc, f = run_derived_dims_case(u["pattern"], u["dims"], how)
            res["evals"] += 1
            res["nontrivial"] += 1
            res["outcomes"][oc] = res["outcomes"].get(oc, 0) + 1
            if f:
                res["fails"].append(f)
    if u["pattern"] == "all2":
        for dims in ("m", "mt", "tm", "rmt", "tr"):
            n = 1
            for l in dims:
                n *= len(LONG_ITEMS[l])
            for marked in [[k] for k in range(n)] + [[0, n - 1]]:
                oc, f = run_where_long_case(dims, marked)
                res["evals"] += 1
                res["nontrivial"] += 1
                res["outcomes"][oc] = res["outcomes"].get(oc, 0) + 1
                if f:
                    res["fails"].append(f)
    X, m, items = make_target(u["pattern"], tuple(u["dims"]))
    n = len(m.data)
    marks = [[k] for k in range(n)] + [[i, j] for i in range(n) for j in range(i + 1, n) if n <= 12 or (i + j) % 5 == 0]
    for mi, marked in enumerate(marks):
        oc, f = run_where_case(u["pattern"], u["dims"], marked, ("C", "F", "transposed", "view")[mi % 4])
        res["evals"] += 1
        res["nontrivial"] += 1 if n > 1 else 0
        res["outcomes"][oc] = res["outcomes"].get(oc, 0) + 1
        if f:
            res["fails"].append(f)
    for letter in u["dims"]:
        oc, f = run_split_case(u["pattern"], u["dims"], letter)
        res["evals"] += 1
        res["nontrivial"] += 1 if n > 1 else 0
        res["outcomes"][oc] = res["outcomes"].get(oc, 0) + 1
        if f:
            res["fails"].append(f)


def run_unit(u):
    global FAMILY
    FAMILY = u.get("family", "std")
    res = dict(evals=0, nontrivial=0, outcomes={}, fails=[], samples=[])
    if u["kind"] == "grid":
        run_grid(u, res)
        if u["dims"] == "cab" and u["pattern"] == "all2" and u["first"] == ["item", "c2"]:
            res["samples"].append(dict(dims="cab", pattern="all2", selectors=[["item", "c2"], ["none"], ["sub", ["b2", "b1"]]], form="dict-name", mode="read", meaning="x[{'Gamma':'c2','Beta':Dimension(w,[b2,b1])}] -> dims (a,w), entries by label, b in requested order"))
    elif u["kind"] == "long":
        run_long(u, res)
    elif u["kind"] == "errors":
        run_errors(u, res)
        if u["part"] == 0:
            res["samples"].append(dict(error_universe="dims o=[EUR,USA] d=[USA,CHN] t=[2000,2001] m=[steel,wood]", key=["EUR", "USA"], mode="w-number", meaning="'USA' is in two dimensions and no dimension is named: must raise, array unchanged"))
    else:
        run_where(u, res)
    return res


def replay(case):
    global FAMILY
    FAMILY = case.get("family", "std")
    k = case["kind"]
    if k == "grid":
        oc, f = run_case(case["pattern"], case["dims"], case["sel"], case["form"], case["mode"])
    elif k == "errors":
        oc, f = run_err_case(case["ekind"], case["spec"], case["mode"])
    elif k == "where":
        oc, f = run_where_case(case["pattern"], case["dims"], case["marked"], case.get("prov", "C"))
    elif k == "where-long":
        oc, f = run_where_long_case(case["dims"], case["marked"])
    elif k == "derived-dims":
        oc, f = run_derived_dims_case(case["pattern"], case["dims"], case["how"])
    else:
        oc, f = run_split_case(case["pattern"], case["dims"], case["letter"])
    return [f] if f else []
