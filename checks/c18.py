"""C18 - systems built from definitions and files match what was defined.

E1: (A) definitions: process lists (valid / sysenv missing / not first) x flow lists (every set of
<= 2 flows over ordered process pairs x dimension arrangement x name override; the three naming
functions + a custom one) x stock definitions (class x lifetime class or none x solver x time letter
x process or none x dimension arrangement with time first / not first) x parameter lists (every
arrangement of <= 3 dims) x invalid definitions (undefined dimension / process, missing / superfluous
lifetime model).  (B) dimension files {CSV, Excel} x {row, column} x {headed by the name, not} x
dtype x item lists x workbooks with several sheets, sheet named or not; from_csv / from_excel /
from_data_reader assembling complete systems.  Oracle: every attribute of the built system equals
the definition.
"""

import itertools
import os
import shutil
import tempfile

import numpy as np
import pandas as pd

from mc.util import attempt

PROPERTY = "C18"
LEVEL = "exploration"
ENGINE = "E1-enumeration"
TECHNIQUE = "bounded exhaustive enumeration of definitions and dimension/parameter files, built with the real assembly pipeline and compared attribute by attribute with the definition"
RULE = (
    "complete enumeration of (process list: 3 valid, 3 invalid orders) x (flow lists: every set of <= 2 flows over "
    "all ordered process pairs x 6 dimension arrangements x with / without name override) x (naming function: "
    "3 built-in + custom) ; (stock definitions: 3 classes x {5 lifetime classes, none} x solver x time letter x "
    "process / none / undefined x 6 dimension arrangements) ; (parameter lists: every arrangement of <= 3 dims, "
    "pairs with the same letters in different orders) ; invalid definitions; dimension files: {CSV, Excel} x {row, "
    "column} x {header, none} x {int, str} x item lists of 1-3 items in unsorted file order x {single sheet, "
    "several sheets with / without sheet name}; complete systems through from_csv / from_excel / "
    "from_data_reader. Non-trivial = definition with at least one flow / stock / parameter or a file. Distinct by "
    "construction."
    " Also: several stocks of one class / lifetime / dims (own lifetime model each), one compound reader for two definitions, the dimension's name or letter as an item, a reader knowing more dimensions than defined, unnamed parameters."
)
ASSUMPTIONS = [
    "bounds: <= 3 processes, <= 2 flows per enumerated list, 3 dimensions + alternative time letter, item lists of <= 3 items",
    "duplicated process names and an empty process list are not addressed by the property and not explored",
    "pandas / openpyxl write the files (producers)",
]
LEVEL_TEXT = (
    "Every definition within the bound is assembled through the real from_data_reader / make_empty_* pipeline and "
    "the resulting processes, flows, stocks and parameters are compared field by field with what was defined; "
    "every invalid definition must be refused; dimension and parameter files in every orientation are read back "
    "and compared with the written items in file order."
)
LEVEL_NOTE = "Trusted: the in-memory data reader of the harness, pandas/openpyxl as file producers. Bounded sizes."

ITEMS = {"t": [2001, 2000, 2002], "p": ["p2", "p1"], "q": ["q1", "q3", "q2"], "y": [1990, 1995, 2000]}
NAMES = {"t": "Time", "p": "Product", "q": "Quality", "y": "Year"}
DTYPES = {"t": int, "p": str, "q": str, "y": int}
ARRS = ["", "t", "tp", "pt", "tpq", "qtp"]


def dimdefs(letters="tpq"):
    from flodym import DimensionDefinition

    return [DimensionDefinition(name=NAMES[l], letter=l, dtype=DTYPES[l]) for l in letters]


def mem_reader(superset=False, unnamed=False):
    """superset: read_dimensions hands back a LARGER set (t, p, q, y) than the definition lists;
    unnamed: the parameters come back without a name (the system files them under the definition's name)"""
    import flodym

    class MemReader(flodym.DataReader):
        def read_dimension(self, d):
            return flodym.Dimension(name=d.name, letter=d.letter, items=list(ITEMS[d.letter]), dtype=d.dtype)

        def read_parameter_values(self, parameter_name, dims):
            if unnamed:
                return flodym.Parameter(dims=dims, values=param_values(dims))
            return flodym.Parameter(dims=dims, values=param_values(dims), name=parameter_name)

        def read_dimensions(self, dimension_definitions):
            if superset:
                return flodym.DimensionSet(dim_list=[self.read_dimension(d) for d in dimdefs("tpqy")])
            return super().read_dimensions(dimension_definitions)

    return MemReader()


def param_values(dims):
    v = np.zeros(dims.shape)
    for idx in itertools.product(*[range(n) for n in dims.shape]):
        s = 0.0
        for d, i in zip(dims, idx):
            s += {"t": 100, "p": 10, "q": 1, "y": 1000}[d.letter] * (1 + ITEMS[d.letter].index(d.items[i]))
        v[idx] = s + 0.5
    return v


def check_array(arr, letters, zero=True, what=""):
    """dims in the listed order with the system's items"""
    if tuple(arr.dims.letters) != tuple(letters):
        return f"{what} dims {arr.dims.letters}, defined {tuple(letters)}"
    for d in arr.dims:
        if list(d.items) != list(ITEMS[d.letter]) or d.name != NAMES[d.letter]:
            return f"{what} dimension {d.letter} has items {d.items} / name {d.name}"
    if tuple(arr.values.shape) != tuple(len(ITEMS[l]) for l in letters):
        return f"{what} shape {arr.values.shape}"
    if zero and np.any(arr.values != 0):
        return f"{what} is not zero-valued"
    return None


# ---- (A) definitions -------------------------------------------------------------------------------

PROC_LISTS = [(["sysenv"], True), (["sysenv", "use"], True), (["sysenv", "use", "waste mgmt"], True), (["use", "sysenv"], False), (["use", "waste mgmt"], False), (["use", "sysenv", "waste mgmt"], False)]


def run_flows_case(procs, flows, naming):
    """flows: list of (src, dst, arr, override|None); naming: None (default via from_data_reader) or a name"""
    import flodym
    from flodym import FlowDefinition, MFADefinition

    case = dict(kind="flows", procs=procs, flows=[list(f) for f in flows], naming=naming)

    def fail(what):
        return "fail", dict(case=case, tags=dict(kind="flows", naming=str(naming)), what=f"processes {procs}, flow definitions {flows}, naming {naming}: {what}")

    valid_procs = procs[0] == "sysenv"
    undefined = any(s not in procs or d not in procs for s, d, _, _ in flows)

    def build():
        fdefs = [FlowDefinition(from_process=s, to_process=d, dim_letters=tuple(a), name_override=o) for s, d, a, o in flows]
        if naming is None:
            defn = MFADefinition(dimensions=dimdefs(), processes=list(procs), flows=fdefs, stocks=[], parameters=[])
            mfa = flodym.MFASystem.from_data_reader(defn, mem_reader())
            return mfa.processes, mfa.flows
        pr = flodym.make_processes(list(procs))
        dims = mem_reader().read_dimensions(dimdefs())
        fn = {"arrow": flodym.flow_naming.process_names_with_arrow, "nospace": flodym.flow_naming.process_names_no_spaces, "ids": flodym.flow_naming.process_ids, "custom": lambda a, b: f"<{b.name}|{a.name}>"}[naming]
        return pr, flodym.make_empty_flows(processes=pr, flow_definitions=fdefs, dims=dims, naming=fn)

    st, got = attempt(build)
    if not valid_procs or undefined:
        if st != "raised":
            return fail("must be refused (system environment not first / undefined process) but a system was built")
        return "refused-as-required", None
    if st == "raised":
        return fail(f"raised {got}")
    pr, fl = got
    if list(pr.keys()) != list(procs) or [p.id for p in pr.values()] != list(range(len(procs))) or [p.name for p in pr.values()] != list(procs):
        return fail(f"processes {[(p.name, p.id) for p in pr.values()]}")

    def expected_name(s, d, o):
        # the FORMAT of generated names is the naming function's business; the property only demands that
        # the flow is stored under the generated or the overriding name
        if o is not None:
            return o
        fns = {None: flodym.flow_naming.process_names_with_arrow, "arrow": flodym.flow_naming.process_names_with_arrow, "nospace": flodym.flow_naming.process_names_no_spaces, "ids": flodym.flow_naming.process_ids, "custom": lambda a, b: f"<{b.name}|{a.name}>"}
        return fns[naming](flodym.Process(name=s, id=procs.index(s)), flodym.Process(name=d, id=procs.index(d)))

    names = [expected_name(s, d, o) for s, d, _, o in flows]
    if len(set(names)) == len(names):
        if list(fl.keys()) != names:
            return fail(f"flow names {list(fl.keys())}, expected {names}")
    for (s, d, a, o), nm in zip(flows, names):
        if names.count(nm) > 1:
            continue  # two definitions generating the same name: not addressed by the property
        f = fl.get(nm)
        if f is None:
            return fail(f"no flow named {nm!r}")
        if f.name != nm or f.from_process.name != s or f.to_process.name != d or f.from_process.id != procs.index(s) or f.to_process.id != procs.index(d):
            return fail(f"flow {nm!r} runs {f.from_process.name}({f.from_process.id}) -> {f.to_process.name}({f.to_process.id}) under name {f.name!r}")
        e = check_array(f, a, True, f"flow {nm!r}")
        if e:
            return fail(e)
    return "matches-definition", None


LIFETIMES = ["FixedLifetime", "NormalLifetime", "FoldedNormalLifetime", "LogNormalLifetime", "WeibullLifetime"]


def run_stock_case(cls, lt, solver, arr, proc, time_letter):
    import flodym
    from flodym import MFADefinition, StockDefinition

    case = dict(kind="stock", cls=cls, lt=lt, solver=solver, arr=arr, proc=proc, time_letter=time_letter)

    def fail(what):
        return "fail", dict(case=case, tags=dict(kind="stock", cls=cls), what=f"stock definition class={cls} lifetime={lt} solver={solver} dims={arr!r} process={proc} time_letter={time_letter}: {what}")

    procs = ["sysenv", "use"]
    needs_lt = cls != "SimpleFlowDrivenStock"
    valid = (lt is not None) == needs_lt and (proc in (None, "sysenv", "use")) and len(arr) > 0 and arr[0] == time_letter and all(l in "tpqy" for l in arr) and solver in ("manual", "lapack", None)

    def build():
        kw = dict(name="the stock", dim_letters=tuple(arr), subclass=getattr(flodym, cls), time_letter=time_letter)
        if lt is not None:
            kw["lifetime_model_class"] = getattr(flodym, lt)
        if proc is not None:
            kw["process"] = proc
        if solver is not None:
            kw["solver"] = solver
        sd = StockDefinition(**kw)
        defn = MFADefinition(dimensions=dimdefs("tpqy"), processes=procs, flows=[], stocks=[sd], parameters=[])
        return flodym.MFASystem.from_data_reader(defn, mem_reader())

    st, mfa = attempt(build)
    if not valid:
        if st != "raised":
            return fail("must be refused but a system was built")
        return "refused-as-required", None
    if st == "raised":
        return fail(f"raised {mfa}")
    if list(mfa.stocks.keys()) != ["the stock"]:
        return fail(f"stocks {list(mfa.stocks.keys())}")
    s = mfa.stocks["the stock"]
    if type(s).__name__ != cls:
        return fail(f"class {type(s).__name__}")
    if s.name != "the stock" or s.time_letter != time_letter:
        return fail(f"name {s.name!r} time letter {s.time_letter!r}")
    if (s.process.name if s.process is not None else None) != proc:
        return fail(f"attached to process {s.process}")
    if proc is not None and s.process.id != procs.index(proc):
        return fail("process id differs")
    if tuple(s.dims.letters) != tuple(arr):
        return fail(f"dims {s.dims.letters}")
    for nm in ("stock", "inflow", "outflow"):
        e = check_array(getattr(s, nm), arr, True, nm)
        if e:
            return fail(e)
    if needs_lt:
        if type(s.lifetime_model).__name__ != lt:
            return fail(f"lifetime model {type(s.lifetime_model).__name__}")
        if tuple(s.lifetime_model.dims.letters) != tuple(arr) or s.lifetime_model.time_letter != time_letter:
            return fail("lifetime model dims / time letter differ from the definition")
    if cls == "StockDrivenDSM" and s.solver != (solver or "manual"):
        return fail(f"solver {s.solver!r}")
    return "matches-definition", None


def run_two_stocks_case(cls, lt, solver):
    """two stock definitions of the same class, lifetime class and dims: two stocks, each with ITS OWN arrays and
    lifetime model (parameters given to one do not reach the other)"""
    import flodym
    from flodym import MFADefinition, StockDefinition

    case = dict(kind="two-stocks", cls=cls, lt=lt, solver=solver)

    def fail(what):
        return "fail", dict(case=case, tags=dict(kind="two-stocks", cls=cls), what=f"two stock definitions class={cls} lifetime={lt} solver={solver} over (t,p): {what}")

    def build():
        sds = []
        for nm, proc in (("first", "use"), ("second", "sysenv"), ("third", "use")):
            kw = dict(name=nm, dim_letters=("t", "p"), subclass=getattr(flodym, cls), process=proc)
            if lt is not None:
                kw["lifetime_model_class"] = getattr(flodym, lt)
            if solver is not None:
                kw["solver"] = solver
            sds.append(StockDefinition(**kw))
        defn = MFADefinition(dimensions=dimdefs("tpq"), processes=["sysenv", "use"], flows=[], stocks=sds, parameters=[])
        return flodym.MFASystem.from_data_reader(defn, mem_reader())

    st, mfa = attempt(build)
    if st == "raised":
        return fail(f"raised {mfa}")
    if list(mfa.stocks) != ["first", "second", "third"]:
        return fail(f"stocks {list(mfa.stocks)}")
    ss = list(mfa.stocks.values())
    for a, b in itertools.combinations(range(3), 2):
        if ss[a] is ss[b]:
            return fail("two definitions share one stock object")
        for nm in ("stock", "inflow", "outflow"):
            if getattr(ss[a], nm) is getattr(ss[b], nm) or np.shares_memory(getattr(ss[a], nm).values, getattr(ss[b], nm).values):
                return fail(f"stocks '{ss[a].name}' and '{ss[b].name}' share their {nm} array")
        if lt is not None and ss[a].lifetime_model is ss[b].lifetime_model:
            return fail(f"stocks '{ss[a].name}' and '{ss[b].name}' hold the SAME lifetime model object (parameters set for one would apply to the other)")
    if lt is not None:
        names = {"FixedLifetime": ["mean"], "WeibullLifetime": ["weibull_shape", "weibull_scale"]}.get(lt, ["mean", "std"])
        st2, info = attempt(lambda: ss[0].lifetime_model.set_prms(**{n: 2.5 for n in names}))
        if st2 == "raised":
            return fail(f"set_prms on the first stock's lifetime model raised {info}")
        for other in ss[1:]:
            if any(v is not None for v in other.lifetime_model.prms.values()):
                return fail(f"parameters set for stock 'first' appeared in the lifetime model of stock '{other.name}'")
    return "matches-definition", None


def run_reader_reuse_case(fmt, second):
    """ONE compound reader object used for two different definitions: the second system follows ITS definition"""
    import flodym
    from flodym import DimensionDefinition, MFADefinition, ParameterDefinition

    case = dict(kind="reader-reuse", fmt=fmt, second=second)

    def fail(what):
        return "fail", dict(case=case, tags=dict(kind="reader-reuse", fmt=fmt), what=f"one CompoundDataReader ({fmt} files) used for two definitions, the second declaring {second}: {what}")

    tmp = tempfile.mkdtemp(prefix="c18_", dir="/dev/shm" if os.path.isdir("/dev/shm") else None)
    try:
        ext = "csv" if fmt == "csv" else "xlsx"
        files = {}
        items = {"Time": [2001, 2000, 2002], "Code": ["10", "9", "8"]}
        for nm, its in items.items():
            path = os.path.join(tmp, f"dim_{nm}.{ext}")
            write_dim_file(path, fmt, "column", False, nm, its, "single")
            files[nm] = path
        if fmt == "csv":
            dr, pr = flodym.CSVDimensionReader(dimension_files=files), flodym.CSVParameterReader(parameter_files={})
        else:
            dr, pr = flodym.ExcelDimensionReader(dimension_files=files), flodym.ExcelParameterReader(parameter_files={})
        reader = flodym.CompoundDataReader(dimension_reader=dr, parameter_reader=pr)
        d1 = [DimensionDefinition(name="Time", letter="t", dtype=int), DimensionDefinition(name="Code", letter="c", dtype=str)]
        code2 = dict(letter=DimensionDefinition(name="Code", letter="k", dtype=str), dtype=DimensionDefinition(name="Code", letter="c", dtype=int), both=DimensionDefinition(name="Code", letter="k", dtype=int))[second]
        d2 = [DimensionDefinition(name="Time", letter="t", dtype=int), code2]
        def both():
            m1 = flodym.MFASystem.from_data_reader(MFADefinition(dimensions=d1, processes=["sysenv", "use"], flows=[], stocks=[], parameters=[]), reader)
            m2 = flodym.MFASystem.from_data_reader(MFADefinition(dimensions=d2, processes=["sysenv", "use"], flows=[flodym.FlowDefinition(from_process="sysenv", to_process="use", dim_letters=("t", code2.letter))], stocks=[], parameters=[]), reader)
            return m1, m2
        st, got = attempt(both)
    finally:
        shutil.rmtree(tmp, ignore_errors=True)
    if st == "raised":
        return fail(f"raised {got}")
    m1, m2 = got
    if [(d.letter, list(d.items)) for d in m1.dims] != [("t", [2001, 2000, 2002]), ("c", ["10", "9", "8"])]:
        return fail(f"first system has dimensions {[(d.letter, d.items) for d in m1.dims]}")
    want_items = ["10", "9", "8"] if code2.dtype is str else [10, 9, 8]
    have = [(d.letter, list(d.items)) for d in m2.dims]
    if have != [("t", [2001, 2000, 2002]), (code2.letter, want_items)] or any(type(i) is not code2.dtype for i in m2.dims[code2.letter].items):
        return fail(f"second system has dimensions {have}, its definition gives {[('t', [2001, 2000, 2002]), (code2.letter, want_items)]}")
    f = list(m2.flows.values())[0]
    if tuple(f.dims.letters) != ("t", code2.letter) or list(f.dims[code2.letter].items) != want_items:
        return fail("the flow of the second system is not over the second definition's dimensions")
    return "system-matches", None


def run_invalid_case(which):
    import flodym
    from flodym import FlowDefinition, MFADefinition, ParameterDefinition, StockDefinition

    case = dict(kind="invalid", which=which)

    def build():
        kw = dict(dimensions=dimdefs("tp"), processes=["sysenv", "use"], flows=[], stocks=[], parameters=[])
        if which == "flow-undefined-dim":
            kw["flows"] = [FlowDefinition(from_process="sysenv", to_process="use", dim_letters=("t", "q"))]
        elif which == "param-undefined-dim":
            kw["parameters"] = [ParameterDefinition(name="x", dim_letters=("q",))]
        elif which == "stock-undefined-dim":
            kw["stocks"] = [StockDefinition(name="s", dim_letters=("t", "q"), subclass=flodym.SimpleFlowDrivenStock, process="use")]
        elif which in ("undefined-dim-not-last", "undefined-dim-not-last-superset-reader"):
            # the offending definition is not the last one; the reader may know more dimensions than the definition lists
            kw["flows"] = [FlowDefinition(from_process="sysenv", to_process="use", dim_letters=("t", "y")), FlowDefinition(from_process="use", to_process="sysenv", dim_letters=("t", "p"))]
            kw["parameters"] = [ParameterDefinition(name="x", dim_letters=("p",))]
            defn = MFADefinition(**kw)
            return flodym.MFASystem.from_data_reader(defn, mem_reader(superset=which.endswith("superset-reader")))
        elif which == "two-letter-dim":
            kw["flows"] = [FlowDefinition(from_process="sysenv", to_process="use", dim_letters=("tp",))]
        elif which == "bad-solver":
            kw["stocks"] = [StockDefinition(name="s", dim_letters=("t",), subclass=flodym.StockDrivenDSM, lifetime_model_class=flodym.NormalLifetime, solver="fast")]
        elif which == "not-a-lifetime-class":
            kw["stocks"] = [StockDefinition(name="s", dim_letters=("t",), subclass=flodym.InflowDrivenDSM, lifetime_model_class=flodym.FlodymArray)]
        defn = MFADefinition(**kw)
        return flodym.MFASystem.from_data_reader(defn, mem_reader())

    st, got = attempt(build)
    if st != "raised":
        return "fail", dict(case=case, tags=dict(kind="invalid"), what=f"invalid definition '{which}' was accepted")
    return "refused-as-required", None


INVALID = ["flow-undefined-dim", "param-undefined-dim", "stock-undefined-dim", "two-letter-dim", "bad-solver", "not-a-lifetime-class", "undefined-dim-not-last", "undefined-dim-not-last-superset-reader"]


def run_params_case(plist):
    import flodym
    from flodym import MFADefinition, ParameterDefinition

    case = dict(kind="params", plist=plist)

    def fail(what):
        return "fail", dict(case=case, tags=dict(kind="params"), what=f"parameter definitions {plist}: {what}")

    def build():
        defn = MFADefinition(dimensions=dimdefs("tpq"), processes=["sysenv"], flows=[], stocks=[], parameters=[ParameterDefinition(name=f"par {k}", dim_letters=tuple(a)) for k, a in enumerate(plist)])
        # (every other parameter list goes through a reader that returns the parameters without naming them)
        return flodym.MFASystem.from_data_reader(defn, mem_reader(unnamed=(sum(len(a) for a in plist) % 2 == 1)))

    st, mfa = attempt(build)
    if st == "raised":
        return fail(f"raised {mfa}")
    if list(mfa.parameters.keys()) != [f"par {k}" for k in range(len(plist))]:
        return fail(f"parameter names {list(mfa.parameters.keys())}")
    if [d.letter for d in mfa.dims] != list("tpq") or any(list(d.items) != ITEMS[d.letter] for d in mfa.dims):
        return fail("system dimension set differs from the dimension definitions")
    for k, a in enumerate(plist):
        p = mfa.parameters[f"par {k}"]
        e = check_array(p, a, False, f"parameter {k}")
        if e:
            return fail(e)
        if p.name != f"par {k}" and not (sum(len(a) for a in plist) % 2 == 1):  # (a reader that does not name its parameters: only the key is stated)
            return fail(f"parameter carries name {p.name!r}")
        if not np.array_equal(p.values, param_values(p.dims)):
            return fail(f"parameter {k} values are not the reader's values by label")
    return "matches-definition", None


# ---- (B) files ---------------------------------------------------------------------------------------


def write_dim_file(path, fmt, orient, header, name, items, sheets):
    cells = ([name] if header else []) + list(items)
    df = pd.DataFrame([cells]) if orient == "row" else pd.DataFrame({0: cells})
    if fmt == "csv":
        df.to_csv(path, header=False, index=False)
        return None
    with pd.ExcelWriter(path) as w:
        if sheets == "single":
            df.to_excel(w, sheet_name="Sheet1", header=False, index=False)
            return None
        if sheets == "first-of-several":
            df.to_excel(w, sheet_name="dims", header=False, index=False)
            pd.DataFrame({0: ["wrong", "sheet"]}).to_excel(w, sheet_name="other", header=False, index=False)
            return None
        pd.DataFrame({0: ["wrong", "sheet"]}).to_excel(w, sheet_name="other", header=False, index=False)
        df.to_excel(w, sheet_name="the dims", header=False, index=False)
        return "the dims"


ITEM_LISTS = {float: [[0.5, 2.5, 1.5], [2.0, 1.0], [1e-3, 7.25], [1.5, 2, 3]], int: [[2005], [2001, 1999], [3, 1, 2], [2020, 2030, 2025], [7, 2000, 5], [5, 4, 3, 2, 1, 0], [0, 1], [-1, 0, 1]], str: [["only"], ["b", "a"], ["x y", "z", "w"], ["10", "9", "8"], ["steel", "316", "copper"], ["north", "Region", "south"], ["r", "s", "t"], ["01", "02", "NA"]]}  # last str list: a text item first, then a number-like one


def run_dimfile_case(fmt, orient, header, dtype_name, li, sheets):
    import flodym
    from flodym import DimensionDefinition

    case = dict(kind="dimfile", fmt=fmt, orient=orient, header=header, dtype=dtype_name, li=li, sheets=sheets)
    dtype = {"int": int, "str": str, "float": float}[dtype_name]
    items = ITEM_LISTS[dtype][li]

    def fail(what):
        return "fail", dict(case=case, tags=dict(kind="dimfile", fmt=fmt, orient=orient, header=header), what=f"{fmt} dimension file ({orient}, header={header}, dtype={dtype_name}, sheets={sheets}) with items {items}: {what}")

    tmp = tempfile.mkdtemp(prefix="c18_", dir="/dev/shm" if os.path.isdir("/dev/shm") else None)
    try:
        path = os.path.join(tmp, "dim." + ("csv" if fmt == "csv" else "xlsx"))
        sheet = write_dim_file(path, fmt, orient, header, "Region", items, sheets)
        d = DimensionDefinition(name="Region", letter="r", dtype=dtype)
        if fmt == "csv":
            reader = flodym.CSVDimensionReader(dimension_files={"Region": path})
        else:
            reader = flodym.ExcelDimensionReader(dimension_files={"Region": path}, dimension_sheets={"Region": sheet} if sheet else None)
        st, dim = attempt(lambda: reader.read_dimension(d))
        st2, dim2 = attempt(lambda: reader.read_dimension(d))
        if st == "ok" and (st2 != "ok" or list(dim2.items) != list(dim.items)):
            st, dim = "raised", f"the second read with the same reader gave {dim2 if st2 != 'ok' else dim2.items} (first: {dim.items})"
    finally:
        shutil.rmtree(tmp, ignore_errors=True)
    if st == "raised":
        return fail(f"raised {dim}")
    if dim.name != "Region" or dim.letter != "r":
        return fail(f"name/letter {dim.name}/{dim.letter}")
    want = [dtype(i) for i in items]
    if list(dim.items) != want or any(type(a) is not dtype for a in dim.items):
        return fail(f"items read as {dim.items!r} ({[type(a).__name__ for a in dim.items]}), file order / declared type give {want!r}")
    return "file-read-correctly", None


def run_system_files_case(fmt, sheets_named, header, flags):
    """complete system through from_csv / from_excel"""
    import flodym
    from flodym import FlowDefinition, MFADefinition, ParameterDefinition, StockDefinition

    case = dict(kind="sysfiles", fmt=fmt, sheets_named=sheets_named, header=header, flags=list(flags))

    def fail(what):
        return "fail", dict(case=case, tags=dict(kind="sysfiles", fmt=fmt), what=f"from_{fmt} (sheet names given: {sheets_named}, dimension files headed: {header}, flags {flags}): {what}")

    tmp = tempfile.mkdtemp(prefix="c18_", dir="/dev/shm" if os.path.isdir("/dev/shm") else None)
    try:
        ext = "csv" if fmt == "csv" else "xlsx"
        dfiles, dsheets, pfiles, psheets = {}, {}, {}, {}
        for l in "tpq":
            path = os.path.join(tmp, f"dim_{l}.{ext}")
            sh = write_dim_file(path, fmt, "column" if l != "p" else "row", header, NAMES[l], ITEMS[l], "named-second" if (sheets_named and fmt == "excel") else "first-of-several" if fmt == "excel" else "single")
            dfiles[NAMES[l]] = path
            if sh:
                dsheets[NAMES[l]] = sh
        plist = {"alpha": "tp", "beta": "qt", "gamma": "p"}
        mem = mem_reader()
        dims = mem.read_dimensions(dimdefs("tpq"))
        for nm, a in plist.items():
            par = flodym.Parameter(dims=dims.get_subset(tuple(a)), name=nm)
            par.values[...] = param_values(par.dims)
            df = par.to_df(index=False)
            if flags[0] and nm == "alpha":
                df = df.drop(index=0)
            if flags[1] and nm == "gamma":
                df = pd.concat([df, pd.DataFrame({"Product": ["unknown"], "value": [1.0]})], ignore_index=True)
            path = os.path.join(tmp, f"par_{nm}.{ext}")
            if fmt == "csv":
                df.to_csv(path, index=False)
            else:
                with pd.ExcelWriter(path) as w:
                    if sheets_named:
                        pd.DataFrame({"x": [1]}).to_excel(w, sheet_name="other", index=False)
                        df.to_excel(w, sheet_name="values", index=False)
                        psheets[nm] = "values"
                    else:
                        df.to_excel(w, sheet_name="values", index=False)
                        pd.DataFrame({"x": [1]}).to_excel(w, sheet_name="other", index=False)
            pfiles[nm] = path
        defn = MFADefinition(
            dimensions=dimdefs("tpq"),
            processes=["sysenv", "use"],
            flows=[FlowDefinition(from_process="sysenv", to_process="use", dim_letters=("t", "p")), FlowDefinition(from_process="use", to_process="sysenv", dim_letters=("p", "t"), name_override="back")],
            stocks=[StockDefinition(name="in use", dim_letters=("t", "p"), subclass=flodym.StockDrivenDSM, lifetime_model_class=flodym.WeibullLifetime, solver="lapack", process="use")],
            parameters=[ParameterDefinition(name=nm, dim_letters=tuple(a)) for nm, a in plist.items()],
        )
        kw = dict(allow_missing_parameter_values=flags[0], allow_extra_parameter_values=flags[1])
        if sheets_named == "partial":
            # only ONE dimension and ONE parameter have their sheet named (they are the second sheet of their files);
            # every other file is read from its first sheet
            for l in "tq":
                path = os.path.join(tmp, f"dim_{l}.{ext}")
                write_dim_file(path, fmt, "column", header, NAMES[l], ITEMS[l], "first-of-several")
            dsheets = {NAMES["p"]: dsheets[NAMES["p"]]}
            for nm in ("beta", "gamma"):
                df0 = pd.read_excel(pfiles[nm], sheet_name="values")
                with pd.ExcelWriter(pfiles[nm]) as w:
                    df0.to_excel(w, sheet_name="values", index=False)
                    pd.DataFrame({"x": [1]}).to_excel(w, sheet_name="other", index=False)
            psheets = {"alpha": "values"}
        if fmt == "csv":
            st, mfa = attempt(lambda: flodym.MFASystem.from_csv(defn, dfiles, pfiles, **kw))
        else:
            st, mfa = attempt(lambda: flodym.MFASystem.from_excel(defn, dfiles, pfiles, dimension_sheets=dsheets or None, parameter_sheets=psheets or None, **kw))
    finally:
        shutil.rmtree(tmp, ignore_errors=True)
    if st == "raised":
        return fail(f"raised {mfa}")
    if [d.letter for d in mfa.dims] != list("tpq") or any(list(d.items) != ITEMS[d.letter] for d in mfa.dims) or any(d.name != NAMES[d.letter] for d in mfa.dims):
        return fail(f"dimension set {[(d.letter, d.items) for d in mfa.dims]}")
    for nm, a in plist.items():
        p = mfa.parameters[nm]
        e = check_array(p, a, False, f"parameter {nm}")
        if e:
            return fail(e)
        want = param_values(p.dims)
        if flags[0] and nm == "alpha":
            want[0, 0] = 0.0
        if not np.array_equal(p.values, want):
            return fail(f"parameter {nm} values differ from the file contents by label")
    if list(mfa.flows.keys()) != ["sysenv => use", "back"]:
        return fail(f"flows {list(mfa.flows.keys())}")
    e = check_array(mfa.flows["back"], "pt", True, "flow back") or check_array(mfa.flows["sysenv => use"], "tp", True, "flow")
    if e:
        return fail(e)
    s = mfa.stocks.get("in use")
    if s is None or type(s).__name__ != "StockDrivenDSM" or s.solver != "lapack" or type(s.lifetime_model).__name__ != "WeibullLifetime" or s.process.name != "use":
        return fail("stock differs from its definition")
    return "system-matches", None


# ---- driver ---------------------------------------------------------------------------------------


def flow_lists(procs, tier):
    pairs = [(s, d) for s in procs + ["ghost"] for d in procs + ["ghost"]]
    types = [(s, d, a) for s, d in pairs for a in ARRS]
    singles = [[(s, d, a, None)] for s, d, a in types] + [[(s, d, a, "my flow")] for s, d, a in types if a in ("tp", "qtp")]
    out = [[]] + singles
    base = [(s, d, a) for s, d in pairs for a in ARRS if "ghost" not in (s, d)]
    for x, y in itertools.combinations(base, 2):
        if tier == "thorough" or (x[2] != y[2] and set(x[2]) == set(y[2])) or (x[0], x[1]) == (y[1], y[0]):
            out.append([x + (None,), y + ("second" if (x[0], x[1]) == (y[0], y[1]) else None,)])
    return out


def bounds(tier):
    return dict(process_lists=len(PROC_LISTS), arrangements=ARRS, lifetimes=LIFETIMES)


def units(tier, seed):
    out = []
    for procs, _ in PROC_LISTS:
        fl = flow_lists(procs, tier)
        for i in range(0, len(fl), 150):
            out.append(dict(kind="flows", procs=procs, lo=i, hi=i + 150, tier=tier))
    for cls in ("SimpleFlowDrivenStock", "InflowDrivenDSM", "StockDrivenDSM"):
        out.append(dict(kind="stocks", cls=cls))
    out.append(dict(kind="params"))
    out.append(dict(kind="invalid"))
    for fmt in ("csv", "excel"):
        for orient in ("row", "column"):
            out.append(dict(kind="dimfiles", fmt=fmt, orient=orient))
    out.append(dict(kind="sysfiles", fmt="csv"))
    out.append(dict(kind="sysfiles", fmt="excel"))
    return out


def run_unit(u):
    res = dict(evals=0, nontrivial=0, outcomes={}, fails=[], samples=[])

    def rec(oc, f, nt=True):
        res["evals"] += 1
        res["nontrivial"] += 1 if nt else 0
        res["outcomes"][oc] = res["outcomes"].get(oc, 0) + 1
        if f and len(res["fails"]) < 25:
            res["fails"].append(f)

    k = u["kind"]
    if k == "flows":
        fl = flow_lists(u["procs"], u["tier"])[u["lo"] : u["hi"]]
        for n, flows in enumerate(fl):
            namings = [None, "arrow", "nospace", "ids", "custom"] if (u["tier"] == "thorough" or n % 3 == 0 or len(flows) == 2) else [None, ("arrow", "nospace", "ids", "custom")[n % 4]]
            for naming in namings:
                rec(*run_flows_case(u["procs"], [tuple(f) for f in flows], naming), nt=bool(flows))
        if u["lo"] == 0 and u["procs"] == ["sysenv", "use", "waste mgmt"]:
            res["samples"].append(dict(procs=u["procs"], flows=[["use", "waste mgmt", "tpq", None], ["use", "waste mgmt", "qtp", "second"]], naming="nospace", meaning="two flows between the same processes whose dims are the same letters in different orders: each must keep ITS listed order; names use_to_waste_mgmt / second"))
    elif k == "stocks":
        cls = u["cls"]
        for lt in [None] + LIFETIMES:
            for solver in (None, "manual", "lapack"):
                if cls != "StockDrivenDSM" and solver == "lapack" and lt not in (None, "NormalLifetime"):
                    continue
                for arr in ["t", "tp", "pt", "tqp", "qtp", "", "yp", "ty", "yt", "tpz"]:
                    for proc in (None, "sysenv", "use", "ghost"):
                        for tl in ("t", "y"):
                            if tl == "y" and arr not in ("yp", "ty", "yt", "tp"):
                                continue
                            rec(*run_stock_case(cls, lt, solver, arr, proc, tl))
        for lt in [None] + LIFETIMES:
            for solver in (None, "lapack"):
                if (lt is None) != (cls == "SimpleFlowDrivenStock") or (solver and cls != "StockDrivenDSM"):
                    continue
                rec(*run_two_stocks_case(cls, lt, solver))
    elif k == "params":
        arrs = ["".join(p) for n in range(0, 4) for p in itertools.permutations("tpq", n)]
        for a in arrs:
            rec(*run_params_case([a]))
        for a, b in itertools.permutations(arrs, 2):
            if set(a) == set(b) or len(a) + len(b) <= 3:
                rec(*run_params_case([a, b]))
    elif k == "invalid":
        for w in INVALID:
            rec(*run_invalid_case(w))
    elif k == "dimfiles":
        for header in (False, True):
            for dt in ("int", "str", "float"):
                for li in range(8 if dt != "float" else 4):  # (text list 7: leading zeros and the text "NA")  # (text lists 5 and 6: the dimension's own name as an item; its letter "r" as first item)
                    for sheets in (("single",) if u["fmt"] == "csv" else ("single", "first-of-several", "named-second")):
                        rec(*run_dimfile_case(u["fmt"], u["orient"], header, dt, li, sheets))
        if u["fmt"] == "excel" and u["orient"] == "row":
            res["samples"].append(dict(kind="dimfile", fmt="excel", orient="row", header=True, dtype="int", items=[3, 1, 2], sheets="first-of-several", meaning="one-row sheet 'Region,3,1,2' as first of two sheets, no sheet named: items must be [3,1,2] as ints, in file order"))
    else:
        for sheets_named in ((False,) if u["fmt"] == "csv" else (False, True, "partial")):
            for header in (False, True):
                for flags in ((False, False), (True, False), (False, True), (True, True)):
                    rec(*run_system_files_case(u["fmt"], sheets_named, header, flags))
        for second in ("letter", "dtype", "both"):
            rec(*run_reader_reuse_case(u["fmt"], second))
    return res


def replay(case):
    k = case["kind"]
    if k == "flows":
        oc, f = run_flows_case(case["procs"], [tuple(x) for x in case["flows"]], case["naming"])
    elif k == "stock":
        oc, f = run_stock_case(case["cls"], case["lt"], case["solver"], case["arr"], case["proc"], case["time_letter"])
    elif k == "invalid":
        oc, f = run_invalid_case(case["which"])
    elif k == "params":
        oc, f = run_params_case(case["plist"])
    elif k == "dimfile":
        oc, f = run_dimfile_case(case["fmt"], case["orient"], case["header"], case["dtype"], case["li"], case["sheets"])
    elif k == "two-stocks":
        oc, f = run_two_stocks_case(case["cls"], case["lt"], case["solver"])
    elif k == "reader-reuse":
        oc, f = run_reader_reuse_case(case["fmt"], case["second"])
    else:
        oc, f = run_system_files_case(case["fmt"], case["sheets_named"], case["header"], tuple(case["flags"]))
    return [f] if f else []
