"""C19 - exports reproduce every flow and stock under its labels.

E1: systems (process names with spaces, arrows, slashes, colons, umlauts; flows over every ordered
process pair with every dimension arrangement incl. orders that differ from the system's dimension
order, C- and Fortran-ordered value buffers; flow-driven stocks under keys that differ from the
arrays' own names) x {numpy dict, pandas dict, pickle round trip, flow CSVs, stock CSVs with and
without in/outflow}; MFADefinition.to_dfs for a family of definitions.  Oracle: every exported
quantity equals the system's by label; pandas / CSV forms re-import with from_df into identical
arrays; exactly one file per flow / exported stock quantity; the system is unchanged.
"""

import itertools
import os
import pickle
import shutil
import tempfile

import numpy as np
import pandas as pd

from mc import observe
from mc.util import attempt

PROPERTY = "C19"
LEVEL = "exploration"
ENGINE = "E1-enumeration"
TECHNIQUE = "bounded exhaustive enumeration of systems, exported through every export function and compared by label with the system"
RULE = (
    "complete enumeration of (2-3 processes with punctuation in their names) x (sets of <= 2 flows over ordered "
    "process pairs x 6 dimension arrangements over (t,p,q) incl. 0-dim and orders differing from the system's x "
    "C / Fortran value buffers) x (stock configuration: none, one, two flow-driven stocks over (t,p) / (t) with "
    "dict keys differing from the arrays' names) x (export: numpy dict, pandas dict, pickle, flow CSV, stock CSV "
    "with / without in- and outflow); to_dfs over a family of 24 definitions. Non-trivial = system with >= 1 flow "
    "or stock. Distinct by construction."
    " Also: a text-typed dimension with number-like labels, a 40 x 30 x 30 system, the pickle export to a bare file name."
)
ASSUMPTIONS = [
    "values are dyadic numbers (exact through CSV text); names stay distinct after file-name sanitising (checked by the model as a precondition)",
    "0-dimensional arrays are covered for the numpy and pickle forms only (to_df is undefined without dimensions)",
    "bounds: <= 3 processes, <= 2 flows, <= 2 stocks, 3 dimensions",
]
LEVEL_TEXT = (
    "Every bounded system is exported through each export function; the returned dict / written files are compared "
    "entry by entry, by label, with the system's arrays, re-imported through from_df, counted, and the system is "
    "snapshotted before and after."
)
LEVEL_NOTE = "Trusted: pandas CSV reader/writer and pickle as transport; label-dict observation of arrays. Bounded sizes."

PROCS = ["sysenv", "use phase", "end-of-life / recycling: Müll"]
ITEMS_A = {"t": [2001, 2000, 2002], "p": ["p1", "p2"], "q": ["q1", "q2"]}  # typed int items listed unsorted
ITEMS_B = {"t": [1990, 1995, 2005], "p": ["steel", "wood"], "q": ["new", "old"]}  # decoy: same names, letters, lengths
ITEMS_M = {"t": [2001, 2000, 2002], "p": ["p1", "p2"], "q": ["old", 7]}  # an untyped dimension whose items have mixed types
ITEMS_N = {"t": [2001, 2000, 2002], "p": ["7208", "7209"], "q": ["q1", "q2"]}  # a text-typed dimension whose labels look like numbers
ITEMS = ITEMS_A
NAMES = {"t": "Time", "p": "Product", "q": "Quality"}
ARRS = ["", "t", "tp", "pt", "qtp", "pq"]


def DS(letters):
    from flodym import Dimension, DimensionSet

    return DimensionSet(dim_list=[Dimension(name=NAMES[l], letter=l, items=list(ITEMS[l]), dtype=int if l == "t" else (None if isinstance(ITEMS[l][-1], int) else str)) for l in letters])


def values_for(letters, k, prov):
    sh = tuple(len(ITEMS[l]) for l in letters)
    v = np.zeros(sh)
    for idx in itertools.product(*[range(n) for n in sh]):
        code = 0
        for l, i in zip(letters, idx):
            code += {"t": 16, "p": 4, "q": 1}[l] * (i + 1)
        v[idx] = 64.0 * (k + 1) + code + 0.5
    if prov == "F" and v.ndim >= 2:
        v = np.asfortranarray(v)
    return v


def build(spec):
    import flodym

    PN = spec.get("names", PROCS)
    procs = flodym.make_processes(PN[: spec["nproc"]])
    if spec.get("proc_order") == "reversed":  # a hand-built system: dict order differs from the order of the ids
        procs = dict(reversed(list(procs.items())))
    flows = {}
    for k, (s, d, a, prov) in enumerate(spec["flows"]):
        name = f"{PN[s]} => {PN[d]}" + ("" if spec["flows"][:k].count(spec["flows"][k]) == 0 and not any(f[0] == s and f[1] == d for f in spec["flows"][:k]) else f" #{k}")
        flows[name] = flodym.Flow(from_process=procs[PN[s]], to_process=procs[PN[d]], name=name, dims=DS(a), values=values_for(a, k, prov))
    stocks = {}
    for k, (proc, a, key) in enumerate(spec["stocks"]):
        ds = DS(a)
        st = flodym.SimpleFlowDrivenStock(
            dims=ds,
            name=key,
            process=None if proc is None else procs[PN[proc]],
            stock=flodym.StockArray(dims=ds, values=values_for(a, 10 + 3 * k, "F")),
            inflow=flodym.StockArray(dims=ds, values=values_for(a, 11 + 3 * k, "C")),
            outflow=flodym.StockArray(dims=ds, values=values_for(a, 12 + 3 * k, "C")),
        )
        stocks[key] = st
    return flodym.MFASystem(dims=DS("tpq"), parameters={}, processes=procs, flows=flows, stocks=stocks)


def snapshot(mfa):
    out = []
    for n, f in mfa.flows.items():
        out.append((n, f.name, f.from_process.name, f.to_process.name, tuple(f.dims.letters), f.values.tobytes(), f.values.strides))
    for n, s in mfa.stocks.items():
        for q in ("stock", "inflow", "outflow"):
            a = getattr(s, q)
            out.append((n, q, a.name, tuple(a.dims.letters), a.values.tobytes()))
    out.append(tuple((d.letter, d.name, tuple(d.items)) for d in mfa.dims))
    out.append(tuple((p.name, p.id) for p in mfa.processes.values()))
    return out


def by_label(values, letters):
    return observe.nd_by_label(np.asarray(values), [tuple(ITEMS[l]) for l in letters])


def sanitize_model(name):
    import re
    import unicodedata

    v = unicodedata.normalize("NFKD", str(name)).encode("ascii", "ignore").decode("ascii")
    v = re.sub(r"[^\w\s-]", "", v.lower())
    return re.sub(r"[-\s]", "_", v).strip("-_")


def run_case(spec, export):
    import flodym
    from flodym import FlodymArray
    from flodym import export as fx

    case = dict(kind="system", spec=spec, export=export)

    def fail(kind, what):
        return "fail", dict(case=case, tags=dict(kind=kind, export=export), what=f"system {spec}, export {export}: {what}")

    # prelude: the same export was run before on a DECOY system with equally named, equally long dimensions
    # but different items and values (exports must not remember anything from earlier exports)
    global ITEMS
    main_items = ITEMS_M if spec.get("mixed") else (ITEMS_N if spec.get("numtext") else ITEMS_A)
    if spec.get("mixed") and export not in ("numpy", "pandas", "pickle"):
        return "n/a", None  # mixed-type labels do not survive CSV text
    ITEMS = ITEMS_B
    try:
        decoy = build(spec)
        dtmp = tempfile.mkdtemp(prefix="c19d_", dir="/dev/shm" if os.path.isdir("/dev/shm") else None)
        try:
            if export in ("numpy", "pandas"):
                if not (export == "pandas" and any(not f.dims.letters for f in decoy.flows.values())):
                    fx.convert_to_dict(decoy, export)
            elif export == "pickle":
                fx.export_mfa_to_pickle(decoy, os.path.join(dtmp, "d.pickle"))
            elif export == "flows-csv":
                if not any(not f.dims.letters for f in decoy.flows.values()):
                    fx.export_mfa_flows_to_csv(decoy, os.path.join(dtmp, "f"))
            else:
                fx.export_mfa_stocks_to_csv(decoy, os.path.join(dtmp, "s"), with_in_and_out=export == "stocks-csv-io")
        except Exception:
            pass
        finally:
            shutil.rmtree(dtmp, ignore_errors=True)
    finally:
        ITEMS = main_items
    st, mfa = attempt(lambda: build(spec))
    if st == "raised":
        raise RuntimeError(f"harness could not build {spec}: {mfa}")
    before = snapshot(mfa)
    want_flows = {n: (tuple(f.dims.letters), by_label(f.values, f.dims.letters), (f.from_process.name, f.to_process.name)) for n, f in mfa.flows.items()}
    want_stocks = {n: {q: (tuple(getattr(s, q).dims.letters), by_label(getattr(s, q).values, getattr(s, q).dims.letters)) for q in ("stock", "inflow", "outflow")} for n, s in mfa.stocks.items()}
    tmp = tempfile.mkdtemp(prefix="c19_", dir="/dev/shm" if os.path.isdir("/dev/shm") else None)
    try:
        if export in ("numpy", "pandas", "pickle"):
            if export == "pickle":
                path = os.path.join(tmp, "m.pickle")
                if len(spec["flows"]) % 2 == 1:
                    # a plain file name, relative to the current working directory
                    cwd = os.getcwd()
                    os.chdir(tmp)
                    try:
                        st, info = attempt(lambda: fx.export_mfa_to_pickle(mfa, "m.pickle"))
                    finally:
                        os.chdir(cwd)
                else:
                    st, info = attempt(lambda: fx.export_mfa_to_pickle(mfa, path))
                if st == "raised":
                    return fail("raised", f"raised {info}")
                with open(path, "rb") as fh:
                    d = pickle.load(fh)
                form = "numpy"
            else:
                if export == "pandas" and any(not f.dims.letters for f in mfa.flows.values()):
                    return "n/a", None
                st, d = attempt(lambda: fx.convert_to_dict(mfa, export))
                if st == "raised":
                    return fail("raised", f"raised {d}")
                form = export
            if d.get("dimension_names") != {l: NAMES[l] for l in "tpq"}:
                return fail("dims", f"dimension_names {d.get('dimension_names')}")
            if {k: list(v) for k, v in d.get("dimension_items", {}).items()} != {NAMES[l]: ITEMS[l] for l in "tpq"}:
                return fail("dims", f"dimension_items {d.get('dimension_items')}")
            if list(d.get("processes", [])) != [p.name for p in mfa.processes.values()]:
                return fail("processes", f"processes {d.get('processes')}")
            if set(d["flows"]) != set(want_flows) or set(d["flow_dimensions"]) != set(want_flows) or set(d["flow_processes"]) != set(want_flows):
                return fail("flows", f"flow keys {sorted(d['flows'])}")
            for n, (letters, data, ends) in want_flows.items():
                if tuple(d["flow_processes"][n]) != ends:
                    return fail("flow-processes", f"flow {n!r} exported as running {d['flow_processes'][n]}, it runs {ends}")
                got_letters = tuple(d["flow_dimensions"][n])
                if form == "numpy":
                    st, got = attempt(lambda: by_label(d["flows"][n], got_letters))
                    if st == "raised" or got_letters != letters and sorted(got_letters) != sorted(letters):
                        return fail("flow-dims", f"flow {n!r}: exported dimension letters {got_letters} do not label the exported values (array dims {letters})")
                    # values must be addressed correctly by the exported letters
                    remap = {tuple(lab[got_letters.index(l)] for l in letters): v for lab, v in got.items()}
                    if remap != data:
                        return fail("flow-values", f"flow {n!r}: exported values under exported letters {got_letters} differ from the flow's entries by label")
                else:
                    if got_letters != letters:
                        return fail("flow-dims", f"flow {n!r}: exported letters {got_letters}, array has {letters}")
                    st, back = attempt(lambda: FlodymArray.from_df(dims=mfa.flows[n].dims, df=d["flows"][n]))
                    if st == "raised" or by_label(back.values, letters) != data:
                        return fail("flow-values", f"flow {n!r}: the exported frame does not re-import into the identical array ({back if st == 'raised' else 'values differ'})")
            if set(d["stocks"]) != set(want_stocks) or set(d["stock_dimensions"]) != set(want_stocks):
                return fail("stocks", f"stock keys {sorted(d['stocks'])}")
            for n, q in want_stocks.items():
                letters, data = q["stock"]
                if tuple(d["stock_dimensions"][n]) != letters:
                    return fail("stock-dims", f"stock {n!r} letters {d['stock_dimensions'][n]}")
                if form == "numpy":
                    if by_label(d["stocks"][n], letters) != data:
                        return fail("stock-values", f"stock {n!r}: exported values are not the stock's values")
                else:
                    st, back = attempt(lambda: FlodymArray.from_df(dims=mfa.stocks[n].stock.dims, df=d["stocks"][n]))
                    if st == "raised" or by_label(back.values, letters) != data:
                        return fail("stock-values", f"stock {n!r}: exported frame does not re-import into the identical array")
            wantp = {n: mfa.stocks[n].process.name for n in mfa.stocks if mfa.stocks[n].process is not None}
            if dict(d["stock_processes"]) != wantp:
                return fail("stock-processes", f"stock_processes {d['stock_processes']}, expected {wantp}")
        elif export == "flows-csv":
            if any(not f.dims.letters for f in mfa.flows.values()):
                return "n/a", None
            out = os.path.join(tmp, "out", "flows")
            st, info = attempt(lambda: fx.export_mfa_flows_to_csv(mfa, out))
            if st == "raised":
                return fail("raised", f"raised {info}")
            files = sorted(os.listdir(out)) if os.path.isdir(out) else []
            if len(files) != len(want_flows):
                return fail("files", f"{len(files)} file(s) {files} for {len(want_flows)} flows (one CSV file per flow)")
            # file names are not part of the property: match files to flows by content (values are distinct per flow)
            unmatched = list(files)
            for n, (letters, data, _) in want_flows.items():
                hit = None
                for fn in unmatched:
                    df = pd.read_csv(os.path.join(out, fn))
                    st, back = attempt(lambda: FlodymArray.from_df(dims=mfa.flows[n].dims, df=df))
                    if st == "ok" and by_label(back.values, letters) == data:
                        hit = fn
                        break
                if hit is None:
                    return fail("flow-values", f"flow {n!r}: none of the files {files} re-imports into the identical array")
                unmatched.remove(hit)
        else:
            with_io = export == "stocks-csv-io"
            out = os.path.join(tmp, "stocks")
            st, info = attempt(lambda: fx.export_mfa_stocks_to_csv(mfa, out, with_in_and_out=with_io))
            if st == "raised":
                return fail("raised", f"raised {info}")
            files = sorted(os.listdir(out)) if os.path.isdir(out) else []
            qs = ("stock", "inflow", "outflow") if with_io else ("stock",)
            wanted = [(n, q) for n in want_stocks for q in qs]
            if len(files) != len(wanted):
                return fail("files", f"{len(files)} file(s) {files} for {len(wanted)} exported stock quantities (one CSV file per quantity)")
            unmatched = list(files)
            for n, q in wanted:
                letters, data = want_stocks[n][q]
                hit = None
                for fn in unmatched:
                    df = pd.read_csv(os.path.join(out, fn))
                    st, back = attempt(lambda: FlodymArray.from_df(dims=getattr(mfa.stocks[n], q).dims, df=df))
                    if st == "ok" and by_label(back.values, letters) == data:
                        hit = fn
                        break
                if hit is None:
                    return fail("stock-values", f"{q} of stock {n!r}: none of the files {files} holds exactly its values")
                unmatched.remove(hit)
    finally:
        shutil.rmtree(tmp, ignore_errors=True)
    ITEMS = ITEMS_A
    if snapshot(mfa) != before:
        return fail("system-changed", "exporting altered the system")
    return "export-faithful", None


EXPORTS = ["numpy", "pandas", "pickle", "flows-csv", "stocks-csv", "stocks-csv-io"]
STOCK_CFGS = [[], [[None, "t", "loose stock"], [1, "tp", "in use"]], [[1, "tp", "in use"]], [[1, "tp", "in use"], [None, "t", "Lager: alt/neu"]], [[0, "t", "outside"], [1, "tpq", "in use (2)"]]]


SEPARATOR_SPEC = dict(nproc=5, names=["sysenv", "steel", "scrap sorting", "steel scrap", "sorting"], flows=[[1, 2, "tp", "C"], [3, 4, "tp", "F"]], stocks=[], proc_order="listed")


def specs(tier, seed=0):
    yield dict(SEPARATOR_SPEC)
    for a in ("pq", "qtp"):
        yield dict(nproc=2, flows=[[0, 1, a, "C"]], stocks=[[1, "tpq", "in use"]], proc_order="listed", mixed=True)
    for a in ("tp", "qtp"):
        yield dict(nproc=2, flows=[[0, 1, a, "C"], [1, 0, "p", "C"]], stocks=[[1, "tpq", "in use"]], proc_order="listed", numtext=True)
    for nproc in (2, 3):
        pairs = [(s, d) for s in range(nproc) for d in range(nproc)]
        types = [(s, d, a, prov) for s, d in pairs for a in ARRS for prov in (("C",) if len(a) < 2 else ("C", "F"))]
        lists = [[]] + [[t] for t in types]
        two = list(itertools.combinations(types, 2))
        if tier == "quick":
            two = [x for i, x in enumerate(two) if i % 23 == seed % 23]
        lists += [list(x) for x in two]
        for n, fl in enumerate(lists):
            for sc in STOCK_CFGS:
                if tier == "quick" and len(fl) == 2 and sc not in (STOCK_CFGS[0], STOCK_CFGS[2]):
                    continue
                orders = ("listed", "reversed") if (tier == "thorough" or (n + len(sc)) % 3 == 0) else ("listed",)
                for po in orders:
                    yield dict(nproc=nproc, flows=[list(f) for f in fl], stocks=sc, proc_order=po)


# ---- to_dfs -----------------------------------------------------------------------------------------


def run_large_case(export, long_dim=False):
    """a system whose one flow and one stock have more than 32767 entries (40 x 30 x 30; no dimension is long), or
    (long_dim) whose Product dimension has 40000 items"""
    import flodym
    from flodym import Dimension, DimensionSet, FlodymArray
    from flodym import export as fx

    case = dict(kind="large", export=export, long_dim=long_dim)
    shp = (3, 40000, 1) if long_dim else (40, 30, 30)

    def fail(what):
        return "fail", dict(case=case, tags=dict(kind="large", export=export), what=f"system with a {shp} flow and stock, export {export}: {what}")

    ds = DimensionSet(dim_list=[Dimension(name="Time", letter="t", items=list(range(2000, 2000 + shp[0])), dtype=int), Dimension(name="Product", letter="p", items=[f"p{i}" for i in range(shp[1])], dtype=str), Dimension(name="Quality", letter="q", items=[f"q{i}" for i in range(shp[2])], dtype=str)])
    v = np.arange(float(shp[0] * shp[1] * shp[2])).reshape(shp) * 0.25 + 1.0
    procs = flodym.make_processes(["sysenv", "use"])
    flow = flodym.Flow(from_process=procs["sysenv"], to_process=procs["use"], name="sysenv => use", dims=ds, values=v.copy())
    stock = flodym.SimpleFlowDrivenStock(dims=ds, name="in use", process=procs["use"], stock=flodym.StockArray(dims=ds, values=v.copy() + 0.125))
    mfa = flodym.MFASystem(dims=ds, parameters={}, processes=procs, flows={flow.name: flow}, stocks={"in use": stock})
    tmp = tempfile.mkdtemp(prefix="c19L_", dir="/dev/shm" if os.path.isdir("/dev/shm") else None)
    try:
        if export == "pandas":
            st, d = attempt(lambda: fx.convert_to_dict(mfa, "pandas"))
            if st == "raised":
                return fail(f"raised {d}")
            frames = {"flow": d["flows"]["sysenv => use"], "stock": d["stocks"]["in use"]}
        else:
            st, info = attempt(lambda: (fx.export_mfa_flows_to_csv(mfa, tmp), fx.export_mfa_stocks_to_csv(mfa, tmp)))
            if st == "raised":
                return fail(f"raised {info}")
            files = sorted(os.listdir(tmp))
            if len(files) != 2:
                return fail(f"files {files}")
            frames = {}
            for fn in files:
                frames["stock" if "stock" in fn else "flow"] = pd.read_csv(os.path.join(tmp, fn), float_precision="round_trip")
        for what, want in (("flow", v), ("stock", v + 0.125)):
            st, back = attempt(lambda: FlodymArray.from_df(dims=ds, df=frames[what]))
            if st == "raised":
                return fail(f"the exported {what} cannot be read back: {back}")
            if not np.array_equal(back.values, want):
                bad = np.argwhere(back.values != want)
                return fail(f"the exported {what} reads back with {len(bad)} entries under wrong labels, first {tuple(int(i) for i in bad[0])}: {back.values[tuple(bad[0])]!r} instead of {want[tuple(bad[0])]!r}")
    finally:
        shutil.rmtree(tmp, ignore_errors=True)
    return "export-faithful", None


def run_todfs_case(k):
    import flodym
    from flodym import DimensionDefinition, FlowDefinition, MFADefinition, ParameterDefinition, StockDefinition

    case = dict(kind="to_dfs", k=k)
    nd, nf, ns, npar = [(1, 0, 0, 0), (2, 1, 0, 0), (3, 2, 1, 0), (3, 0, 2, 2), (2, 3, 0, 1), (3, 1, 1, 3)][k % 6]
    variant = k // 6
    dims = [DimensionDefinition(name=NAMES[l], letter=l, dtype=int if l == "t" else str) for l in "tpq"[:nd]]
    L = "tpq"[:nd]
    flows = [FlowDefinition(from_process=PROCS[i % 2], to_process=PROCS[(i + 1) % 2], dim_letters=tuple(L[: 1 + (i + variant) % nd]), name_override=None if (i + variant) % 2 else f"flow {i}") for i in range(nf)]
    dup = variant == 3  # several definitions sharing one name (e.g. stocks left at the default name)
    stocks = [StockDefinition(name=("undefined stock" if dup else f"stock {i}"), dim_letters=tuple(L), subclass=flodym.StockDrivenDSM if (i + variant) % 2 else flodym.SimpleFlowDrivenStock, lifetime_model_class=flodym.NormalLifetime if (i + variant) % 2 else None, solver="lapack" if variant % 2 else "manual", process=PROCS[1] if variant < 2 else None) for i in range(ns)]
    params = [ParameterDefinition(name=("par" if dup else f"par {i}"), dim_letters=tuple(reversed(L[: 1 + (i % nd)]))) for i in range(npar)]
    full = variant % 2 == 0 or dup
    defn = MFADefinition(dimensions=dims, processes=PROCS[:2] if full else [], flows=flows if full else [], stocks=stocks if full else [], parameters=params)

    def fail(what):
        return "fail", dict(case=case, tags=dict(kind="to_dfs"), what=f"to_dfs of definition #{k}: {what}")

    st, dfs = attempt(lambda: defn.to_dfs())
    if st == "raised":
        return fail(f"raised {dfs}")
    kinds = dict(dimensions=defn.dimensions, processes=defn.processes, flows=defn.flows, stocks=defn.stocks, parameters=defn.parameters)
    nonempty = [n for n, lst in kinds.items() if lst]
    if sorted(dfs.keys()) != sorted(nonempty):
        return fail(f"tables {sorted(dfs.keys())}, non-empty kinds {sorted(nonempty)}")
    for n in nonempty:
        df = dfs[n]
        lst = kinds[n]
        if len(df) != len(lst):
            return fail(f"table {n!r} has {len(df)} rows for {len(lst)} definitions")
        for i, item in enumerate(lst):
            row = df.iloc[i]
            if isinstance(item, str):
                if row["name"] != item:
                    return fail(f"process row {i} is {row['name']!r}")
                continue
            for field, val in item.model_dump().items():
                if field not in df.columns:
                    return fail(f"table {n!r} lacks the field {field!r}")
                got = row[field]
                same = (got == val) if not isinstance(val, tuple) else tuple(got) == val
                if val is None:
                    same = got is None or (isinstance(got, float) and got != got)
                if not same:
                    return fail(f"table {n!r} row {i} field {field!r} is {got!r}, definition has {val!r}")
    return "to_dfs-faithful", None


def bounds(tier):
    return dict(systems=sum(1 for _ in specs(tier)), exports=EXPORTS, to_dfs_definitions=24)


def units(tier, seed):
    sp = list(specs(tier, seed))
    out = []
    for i in range(0, len(sp), 12):
        out.append(dict(kind="systems", lo=i, hi=i + 12, tier=tier, seed=seed))
    out.append(dict(kind="to_dfs"))
    out.append(dict(kind="large"))
    return out


def run_unit(u):
    res = dict(evals=0, nontrivial=0, outcomes={}, fails=[], samples=[])

    def rec(oc, f, nt=True):
        if oc == "n/a":
            return
        res["evals"] += 1
        res["nontrivial"] += 1 if nt else 0
        res["outcomes"][oc] = res["outcomes"].get(oc, 0) + 1
        if f and len(res["fails"]) < 25:
            res["fails"].append(f)

    if u["kind"] == "to_dfs":
        for k in range(24):
            rec(*run_todfs_case(k))
        return res
    if u["kind"] == "large":
        for ex in ("pandas", "csv"):
            rec(*run_large_case(ex))
        rec(*run_large_case("pandas", True))
        return res
    sp = list(specs(u["tier"], u.get("seed", 0)))[u["lo"] : u["hi"]]
    for spec in sp:
        for ex in EXPORTS:
            rec(*run_case(spec, ex), nt=bool(spec["flows"] or spec["stocks"]))
    if u["lo"] == 0:
        res["samples"].append(dict(spec=dict(nproc=3, flows=[[1, 2, "qtp", "F"]], stocks=[[1, "tp", "in use"]]), export="numpy", meaning="flow 'use phase => end-of-life / recycling: Müll' over (q,t,p) with a Fortran-ordered buffer: exported values indexed by the exported letters must equal the flow's entries by label"))
    return res


def replay(case):
    if case["kind"] == "to_dfs":
        oc, f = run_todfs_case(case["k"])
    elif case["kind"] == "large":
        oc, f = run_large_case(case["export"], case.get("long_dim", False))
    else:
        oc, f = run_case(case["spec"], case["export"])
    return [f] if f else []
