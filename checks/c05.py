"""C05 - assignment into a declared array keeps its dims and sums the source by label.

E2: breadth-first search over sequences of assignments  target[key] = rhs  on one declared target,
with a label-dict model stepped in lockstep.  After EVERY transition the whole target (dims, shape,
every entry) is compared with the model; a transition that must be rejected has to raise and leave
the target bit-identical; after an ndarray assignment the source ndarray is scribbled on and the
target must not move.
"""

import itertools

import numpy as np

from mc import bfs, observe, refmodel as R, spaces as S
from mc.util import attempt, short
from checks import c06

PROPERTY = "C05"
LEVEL = "model_checking"
ENGINE = "E2-bfs"
TECHNIQUE = "explicit-state BFS over assignment histories on the live array with a lockstep label-dict model"
RULE = (
    "BFS over histories of assignments to one declared 3-dimensional target (length patterns all-2 and 2/3/2). "
    "Alphabet = (key: ..., bare items, dict by letter / name, two-dimension keys, tuples, subset Dimensions in "
    "both item orders, lists) x (rhs: number; FlodymArray over exactly the region's dims in every storage order; "
    "with one and two surplus dims (summed by label); lacking a region dim (must raise); ndarray of the region's "
    "shape; for ...: ndarrays of every wrong shape class - transposed, size-1 axis, missing axis, 0-d, wrong "
    "rank, flat - which must raise). rhs values carry the operation index, so overlapping writes are "
    "distinguishable. State key = exact tuple of all entries + dims signature (no abstraction). A transition is "
    "non-trivial when it writes or must be rejected."
    " Also: falsy item labels (0, ''), keys naming single items in another order than stored, one-shot iterator item lists, int64 / float32 ndarrays, a zero-item surplus dimension."
)
ASSUMPTIONS = [
    "finite rhs value alphabet (integers tagged by operation and position); sums over surplus dims are exact",
    "depth bound 2 (quick) / 3 (thorough); 3-dimensional target with <= 3 items per dimension",
    "a transposed ndarray between equal-length dimensions keeps the shape and is, as howto 04 says, undetectable: not demanded",
    "wrong-shape ndarrays under a non-ellipsis key are not specified by the property and not explored",
]
LEVEL_TEXT = (
    "All assignment histories up to the depth bound over an alphabet of ~150 (key, rhs) operations are executed "
    "on the real array; the invariant (dims and shape unchanged, region written by label, rest untouched, "
    "rejected calls change nothing, assigned ndarrays copied) is checked after every transition against the model."
)
LEVEL_NOTE = "Exact state key (all entries), so de-duplication is sound; histories longer than the bound and values outside the alphabet are not covered."

PATTERNS = {"all2": "all2", "232": "2323", "522": "5222", "232f": "2323"}
FAMILY = {"232f": "falsy"}  # the same keys over items that are falsy in Python (0, "")


def items_of(pattern):
    return S.items_for(PATTERNS[pattern], family=FAMILY.get(pattern, "std"))

DIMS = "abc"

# key alphabet: per-dimension selector lists (see checks/c06.py) + key form
KEYS = [
    ("ellipsis", [["none"], ["none"], ["none"]]),
    ("emptydict", [["none"], ["none"], ["none"]]),
    ("bare", [["item", "a1"], ["none"], ["none"]]),
    ("bare", [["none"], ["item", "b2"], ["none"]]),
    ("dict-letter", [["none"], ["none"], ["item", "c2"]]),
    ("dict-name", [["item", "a2"], ["none"], ["none"]]),
    ("dict-letter", [["item", "a1"], ["none"], ["item", "c2"]]),
    ("tuple", [["item", "a2"], ["item", "b1"], ["none"]]),
    ("dict-mixed", [["none"], ["item", "b1"], ["item", "c1"]]),
    ("dict-letter", [["item", "a2"], ["item", "b2"], ["item", "c1"]]),
    ("dict-letter", [["none"], ["sub", ["b2", "b1"]], ["none"]]),
    ("dict-name", [["none"], ["none"], ["sub", ["c1"]]]),
    ("dict-letter", [["sub", ["a1", "a2"]], ["none"], ["item", "c2"]]),
    ("dict-letter", [["item", "a2"], ["none"], ["sub", ["c2", "c1"]]]),
    ("dict-letter", [["item", "a1"], ["none"], ["sub", ["c2", "c1"]]]),
    ("dict-name", [["item", "a1"], ["none"], ["list", ["c1", "c2"]]]),
    ("dict-letter", [["sub", ["a2", "a1"]], ["none"], ["item", "c1"]]),
    ("dict-letter", [["sub", ["a2", "a1"]], ["none"], ["sub", ["c2", "c1"]]]),
    ("dict-letter", [["list", ["a2", "a1"]], ["none"], ["none"]]),
    ("tuple", [["list", ["a1", "a2"]], ["none"], ["item", "c1"]]),
    ("dict-letter", [["list", ["a2"]], ["item", "b2"], ["list", ["c2", "c1"]]]),
    # single items of several dimensions named in another order than the target stores them
    ("tuple-rev", [["item", "a2"], ["item", "b1"], ["none"]]),
    ("tuple-rev", [["item", "a1"], ["none"], ["item", "c2"]]),
    ("dict-letter-rev", [["item", "a1"], ["none"], ["item", "c2"]]),
    ("dict-letter-rev", [["item", "a2"], ["item", "b2"], ["none"]]),
    ("dict-letter-rev", [["none"], ["item", "b1"], ["item", "c1"]]),
    ("dict-letter-rev", [["item", "a1"], ["sub", ["b2", "b1"]], ["item", "c2"]]),
    # item lists handed over as one-shot iterators
    ("dict-iter", [["list", ["a2", "a1"]], ["none"], ["none"]]),
    ("dict-iter", [["item", "a1"], ["none"], ["list", ["c1", "c2"]]]),
    # several items of ONE dimension given as a plain tuple (first item first)
    ("tuple", [["list", ["a1", "a2"]], ["none"], ["none"]]),
    ("tuple", [["none"], ["list", ["b1", "b2"]], ["none"]]),
]


# a 5-item dimension: selections that are irregular, unordered or have a permuted interior
KEYS_LONG = [
    ("ellipsis", [["none"], ["none"], ["none"]]),
    ("bare", [["item", "a4"], ["none"], ["none"]]),
    ("dict-letter", [["none"], ["item", "b2"], ["none"]]),
]
for _sel in (["a1", "a2", "a5", "a4"], ["a2", "a4", "a3", "a5"], ["a1", "a3", "a5"], ["a5", "a1"], ["a2", "a3", "a1", "a5"], ["a1", "a2", "a4"]):
    KEYS_LONG.append(("dict-letter", [["sub", _sel], ["none"], ["none"]]))
    KEYS_LONG.append(("dict-name", [["list", _sel], ["none"], ["item", "c2"]]))
    KEYS_LONG.append(("dict-letter", [["sub", _sel], ["sub", ["b2", "b1"]], ["none"]]))


def _translate(sel, items):
    """std labels ('a2' = second item of a) -> the items of the pattern's label family"""
    def tr(lab):
        return items[lab[0]][int(lab[1:]) - 1]

    out = []
    for s in sel:
        if s[0] == "item":
            out.append(["item", tr(s[1])])
        elif s[0] in ("sub", "list"):
            out.append([s[0], [tr(x) for x in s[1]]])
        else:
            out.append(list(s))
    return out


_KEYS_CACHE = {}


def keys_for(pattern):
    if pattern == "522":
        return KEYS_LONG
    if pattern in FAMILY:
        if pattern not in _KEYS_CACHE:
            items = items_of(pattern)
            _KEYS_CACHE[pattern] = [(form, _translate(sel, items)) for form, sel in KEYS]
        return _KEYS_CACHE[pattern]
    return KEYS


def region_of(m, sel):
    ms, has_list = c06.model_sel(DIMS, sel)
    region, src = R.select(m, ms)
    return region, src, has_list


def rhs_alphabet(pattern, key_idx):
    """rhs specs applicable to a key"""
    form, sel = keys_for(pattern)[key_idx]
    items = items_of(pattern)
    m = R.build(tuple(DIMS), items, lambda lab: 0.0)
    region, src, has_list = region_of(m, sel)
    out = [dict(kind="number"), dict(kind="int-number")]
    out.append(dict(kind="ndarray"))
    out.append(dict(kind="ndarray-ro"))      # exact shape, a read-only view of a writable buffer
    out.append(dict(kind="ndarray-bcast"))   # exact shape, produced by np.broadcast_to (read-only, zero strides)
    out.append(dict(kind="ndarray-int"))     # exact shape, int64 entries (another dtype than the target's)
    out.append(dict(kind="ndarray-f32"))     # exact shape, float32 entries
    if not has_list:
        rl = region.letters
        dropped = [l for l, s in zip(DIMS, sel) if s[0] == "item"]
        surplus_pool = ["d"] + dropped[:1]
        for perm in itertools.permutations(rl):
            out.append(dict(kind="flodym", dims="".join(perm), note="exact"))
        for sp in surplus_pool:
            for pos in range(len(rl) + 1):
                if len(rl) >= 2 and pos == 1 and sp != "d":
                    continue
                base = list(reversed(rl)) if pos % 2 else list(rl)
                base.insert(pos, sp)
                out.append(dict(kind="flodym", dims="".join(base), note="surplus1"))
        if len(surplus_pool) == 2:
            out.append(dict(kind="flodym", dims="".join([surplus_pool[1]] + list(rl) + ["d"]), note="surplus2"))
            out.append(dict(kind="flodym", dims="".join(["d"] + list(reversed(rl)) + [surplus_pool[1]]), note="surplus2"))
        else:
            out.append(dict(kind="flodym", dims="".join(["e"] + list(rl) + ["d"]), note="surplus2"))
        # a surplus dimension with ZERO items: the sum over it is an empty sum, the region is filled with zeros
        out.append(dict(kind="flodym", dims="".join(list(rl) + ["z"]), note="empty-surplus"))
        if rl:
            out.append(dict(kind="flodym", dims="".join(["z"] + list(rl[1:])), note="empty-lacking"))
        for lack in rl:
            rest = [l for l in rl if l != lack]
            out.append(dict(kind="flodym", dims="".join(rest), note="lacking"))
            out.append(dict(kind="flodym", dims="".join(["d"] + rest[::-1]), note="lacking"))
    if form == "ellipsis":
        shape = tuple(len(items[l]) for l in DIMS)
        bad = set()
        for perm in itertools.permutations(range(3)):
            sh = tuple(shape[i] for i in perm)
            if sh != shape:
                bad.add(sh)
        for k in range(3):
            bad.add(shape[:k] + (1,) + shape[k + 1 :])
            bad.add(shape[:k] + shape[k + 1 :])
        bad.update([(), (1,), shape + (1,), (1,) + shape, (int(np.prod(shape)),), shape[2:], shape[:1], (shape[0], shape[1], shape[2] + 1)])
        for sh in sorted(bad):
            out.append(dict(kind="nd-bad", shape=list(sh)))
        out.append(dict(kind="list-of-lists"))
    return out


def ops_for(pattern):
    ops = []
    for ki in range(len(keys_for(pattern))):
        for r in rhs_alphabet(pattern, ki):
            if pattern == "522" and (r["kind"] == "nd-bad" or r.get("note") in ("surplus2", "lacking", "empty-surplus", "empty-lacking")):
                continue
            ops.append(dict(key=ki, rhs=r, idx=len(ops) + 1))
    return ops


def bounds(tier):
    b = dict(depth_full_alphabet=2, alphabet={p: len(ops_for(p)) for p in PATTERNS}, keys=len(KEYS))
    if tier == "thorough":
        b.update(depth_reduced_alphabet=3, reduced_alphabet={p: len(reduced(ops_for(p))) for p in ("all2", "232f")}, later_steps_alphabet={p: len(reduced(ops_for(p))[::4]) for p in ("all2", "232f")})
    return b


def reduced(ops):
    """representative sub-alphabet for the depth-3 search: per key one rhs of each class"""
    seen, out = set(), []
    for o in ops:
        r = o["rhs"]
        cls = (o["key"], r["kind"], r.get("note", ""))
        if r["kind"] == "nd-bad" and len(r["shape"]) not in (0, 2, 3):
            continue
        n = sum(1 for c in seen if c == cls)
        if cls in seen and not (r["kind"] == "flodym" and r.get("note") == "exact"):
            continue
        seen.add(cls)
        out.append(o)
    return out


def units(tier, seed):
    out = []
    for pattern in PATTERNS:
        ops = ops_for(pattern)
        for k in range(len(ops)):
            out.append(dict(pattern=pattern, first=k, depth=2, alphabet="full"))
        if tier == "thorough" and pattern in ("all2", "232f"):
            red = reduced(ops)
            for k in range(len(red)):
                out.append(dict(pattern=pattern, first=k, depth=3, alphabet="reduced"))
    return out


class State:
    pass


def build_state(pattern):
    st = State()
    st.pattern = pattern
    st.items = items_of(pattern)
    f = S.val_base(4, 1)(tuple(DIMS), st.items)
    st.X = S.flodym_array(tuple(DIMS), st.items, f, "C")
    st.m = R.build(tuple(DIMS), st.items, f)
    st.sig = observe.dimset(st.X.dims)
    return st


def make_rhs(st, op, region):
    """returns (rhs object, effect: dict region label -> value | None when the call must raise)"""
    r = op["rhs"]
    tag = 1000.0 * op["idx"]
    if r["kind"] == "number":
        v = tag + 0.5
        return v, {lab: v for lab in region.labels()}
    if r["kind"] == "int-number":
        v = int(tag) + 3
        return v, {lab: float(v) for lab in region.labels()}
    shape = tuple(len(region.items[l]) for l in region.letters)
    if r["kind"] in ("ndarray-int", "ndarray-f32"):
        vals = np.zeros(shape, dtype=np.int64 if r["kind"] == "ndarray-int" else np.float32)
        eff = {}
        for k, idx in enumerate(itertools.product(*[range(n) for n in shape])):
            vals[idx] = int(tag) + 3 * k + 2
            eff[tuple(region.items[l][i] for l, i in zip(region.letters, idx))] = float(int(tag) + 3 * k + 2)
        return vals, eff
    if r["kind"] == "ndarray":
        vals = np.zeros(shape)
        eff = {}
        for k, idx in enumerate(itertools.product(*[range(n) for n in shape])):
            vals[idx] = tag + k
            eff[tuple(region.items[l][i] for l, i in zip(region.letters, idx))] = tag + k
        return vals, eff
    if r["kind"] in ("ndarray-ro", "ndarray-bcast"):
        if r["kind"] == "ndarray-ro":
            base = np.zeros(shape)
            eff = {}
            for k, idx in enumerate(itertools.product(*[range(n) for n in shape])):
                base[idx] = tag + 2 * k + 1
                eff[tuple(region.items[l][i] for l, i in zip(region.letters, idx))] = tag + 2 * k + 1
            view = base.view()
        else:
            last = shape[-1] if shape else 1
            base = np.array([tag + 5 * k for k in range(last)], dtype=float) if shape else np.array(tag + 5.0)
            view = np.broadcast_to(base, shape)
            eff = {}
            for idx in itertools.product(*[range(n) for n in shape]):
                eff[tuple(region.items[l][i] for l, i in zip(region.letters, idx))] = float(base[idx[-1]] if shape else base)
        view.setflags(write=False)
        make_rhs.base = base
        return view, eff
    if r["kind"] == "nd-bad":
        return np.full(tuple(r["shape"]), tag + 7.0), None
    if r["kind"] == "list-of-lists":
        return np.full(shape, tag).tolist(), "unspecified"
    # FlodymArray
    from flodym import DimensionSet, FlodymArray

    letters = tuple(r["dims"])
    its = {}
    dl = []
    for l in letters:
        if l in region.letters:
            its[l] = region.items[l]
            if l in DIMS:
                dl.append(st.X.dims[l])
            else:
                orig = DIMS[[c06.SUBL[S.LETTERS.index(x)] for x in DIMS].index(l)]
                dl.append(S.make_dimension(l, its[l], name="Sub" + orig.upper()))
        elif l == "z":
            its[l] = ()
            dl.append(S.make_dimension("z", (), name="Zeta"))
        else:
            its[l] = st.items[l] if l in st.items else S.items_for("all2")[l]
            dl.append(S.make_dimension(l, its[l]))
    shape = tuple(len(its[l]) for l in letters)
    vals = np.zeros(shape)
    data = {}
    for k, idx in enumerate(itertools.product(*[range(n) for n in shape])):
        vals[idx] = tag + k + 1
        data[tuple(its[l][i] for l, i in zip(letters, idx))] = tag + k + 1
    rhs = FlodymArray(dims=DimensionSet(dim_list=dl), values=np.asfortranarray(vals) if (op["idx"] % 2 and vals.ndim >= 2) else vals)
    if any(l not in letters for l in region.letters):
        return rhs, None
    eff = {lab: 0.0 for lab in region.labels()}
    for lab, v in data.items():
        eff[R.project(lab, letters, region.letters)] += v
    return rhs, eff


def apply_op(st, op, check):
    form, sel = keys_for(st.pattern)[op["key"]]
    region, src, has_list = region_of(st.m, sel)
    kb = c06.build_key(DIMS, sel, form, st.X)
    key = kb[1]
    rhs, eff = make_rhs(st, op, region)
    before = st.m.copy()
    rhs_snapshot = rhs.copy() if isinstance(rhs, np.ndarray) else None
    rhs_base = getattr(make_rhs, "base", None) if op["rhs"]["kind"] in ("ndarray-ro", "ndarray-bcast") else None

    def do():
        st.X[key] = rhs

    status, info = attempt(do)
    desc = f"target[{form}:{sel}] = {op['rhs']}"

    def fail(kind, what, **kw):
        return "fail", dict(case=dict(pattern=st.pattern), tags=dict(kind=kind, rhs=op["rhs"]["kind"], note=op["rhs"].get("note", "")), what=f"{desc}: {what}", **kw)

    if form == "dict-iter" and status == "raised":
        eff = None  # an implementation may insist on real lists; then nothing may have changed
    if eff == "unspecified":
        # nested python lists under ...: the statement does not say; whatever happens, the invariant must hold
        eff = {lab: 1000.0 * op["idx"] for lab in region.labels()} if status == "ok" else None
    if eff is None:  # must be rejected, target bit-identical
        if status == "ok" and op["rhs"]["kind"] != "list-of-lists":
            return fail("must-raise", "must be rejected but was accepted")
        if check:
            st2, obs = attempt(lambda: observe.arr(st.X))
            if st2 == "raised":
                return fail("invariant", f"after the rejected call the target is malformed: {obs}")
            d = before.diff(obs)
            if d:
                return fail("changed-on-error", f"the rejected call changed the target: {d}")
        return "rejected-as-required", None
    if status == "raised":
        return fail("raised", f"raised {info}")
    for lab, v in eff.items():
        st.m.data[src[lab]] = v
    if check:
        if observe.dimset(st.X.dims) != st.sig:
            return fail("dims-changed", f"target dims changed to {observe.dimset(st.X.dims)}")
        st2, obs = attempt(lambda: observe.arr(st.X))
        if st2 == "raised":
            return fail("invariant", f"target malformed: {obs}")
        d = st.m.diff(obs)
        if d:
            return fail("values", d, observed=short(obs.data, 30), expected=short(st.m.data, 30))
        if rhs_snapshot is not None:
            if not np.array_equal(rhs, rhs_snapshot):
                return fail("rhs-changed", "the assigned ndarray was modified")
            # scribble on the source: an assigned ndarray is always copied
            if rhs_base is not None:
                rhs_base[...] = -12345.0
            else:
                rhs[...] = -12345.0
            obs2 = observe.arr(st.X)
            if st.m.diff(obs2):
                return fail("not-copied", "changing the assigned ndarray afterwards changed the target")
    if op["rhs"]["kind"] in ("ndarray-int", "ndarray-f32") and st.X.values.dtype != np.float64:
        # a whole-array assignment adopts the ndarray's dtype (numpy semantics, not addressed by the statement); the
        # exploration continues from a float64 target again - through the public route, with the same entries
        st.X[...] = st.X.values.astype(np.float64)
    return "written", None


def canon(st):
    return (tuple(st.sig), tuple(st.X.values.shape), st.X.values.tobytes())


def run_unit(u):
    pattern = u["pattern"]
    ops = ops_for(pattern)
    first = ops[u["first"]] if u.get("alphabet") != "reduced" else reduced(ops)[u["first"]]
    if u.get("alphabet") == "reduced":
        # depth 3: the first operation ranges over the reduced alphabet (one right-hand side of each class per key),
        # the second and third over every fourth member of it
        ops = reduced(ops)[::4]
    r = bfs.explore(lambda: build_state(pattern), ops, apply_op, canon, u["depth"], prefix=[first])
    for f in r["fails"]:
        f["case"] = dict(pattern=pattern, history=f["case"]["history"])
    res = dict(evals=r["transitions"], nontrivial=r["transitions"], outcomes=r["outcomes"], fails=r["fails"], states=r["states"], transitions=r["transitions"], traces=r["traces"], samples=[])
    if u["first"] == 40 and pattern == "all2" and u["depth"] == 2:
        res["samples"].append(dict(pattern=pattern, history=[dict(key=keys_for(pattern)[o["key"]], rhs=o["rhs"]) for o in (ops[40], ops[3])], meaning="two successive assignments; whole target compared with the model after each"))
    return res


def replay(case):
    st = build_state(case["pattern"])
    out = []
    for op in case["history"]:
        oc, f = apply_op(st, op, True)
        if f:
            f["case"] = case
            out.append(f)
            break
    return out
