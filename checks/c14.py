"""C14 - dimension sets behave as ordered sets of uniquely lettered dimensions.

E1 part: every ordered pair of arrangements over {a,b,c,d} x {|, &, -, ^, +, the named methods,
named methods}, subset selection with every arrangement by letter / name /
mixed, every lookup (name, letter, position, membership, index, size, shape, total size, ...).
E2 part: BFS over histories of in-place and out-of-place mutators on a receiver R, the last
returned set S and an array A built from R, against an ordered-list model in which no two sets
share storage.
"""

import itertools

from mc import bfs, spaces as S
from mc.util import attempt

PROPERTY = "C14"
LEVEL = "model_checking"
ENGINE = "E2-bfs"
TECHNIQUE = "explicit-state BFS over in-place / out-of-place DimensionSet operation histories with a lockstep ordered-list model, plus exhaustive pair enumeration of the set operators"
RULE = (
    "E1: all 65 x 65 ordered pairs of arrangements of {a,b,c,d} (item counts 2,3,2,3) x {|, &, -, ^, +, "
    "union_with, intersect_with, difference_with}; get_subset / [] with every "
    "arrangement by letter, by name and mixed; every lookup on every arrangement; duplicate-letter constructors. "
    "E2: BFS over histories on registers R (receiver), S (last returned set), A (array built from R) with the "
    "alphabet {append, prepend, insert(i), expand_by, replace, drop} x {inplace True/False} x {fresh dimension, "
    "dimension re-using an existing letter, dimension already present} applied to R and to S, plus union / "
    "intersection / difference with a fixed pool, get_subset(), get_subset(letters), copy(), R[...] tuple "
    "selection. State key = (letters of R, S, A.dims, alias partition of the underlying dim_list objects): the "
    "alias partition is kept because two states with equal letters but different sharing have different futures. "
    "Non-trivial = transition that changes a register or must be rejected."
    " Also: Dimension right operands, one-shot iterables for subsets, namesake dimensions in one set, sets of zero-item dimensions, a replacement with the old name and a clashing letter."
)
ASSUMPTIONS = [
    "alphabet of 6 dimension letters; histories up to depth 3 (quick) / 4 (thorough)",
    "replace() with a dimension re-using the letter of the replaced dimension itself is not specified and not explored",
]
LEVEL_TEXT = (
    "The set algebra is checked on all ordered pairs of dimension sets over a 4-letter alphabet; the mutators are "
    "explored as a state machine with every in-place/out-of-place interleaving up to the depth bound, the real "
    "objects being compared after every step with an ordered-list model that has no shared storage."
)
LEVEL_NOTE = "State key is exact in the observable letters and the identity-based alias partition. Bounded alphabet and depth."

PAT = "2323"
ITEMS = S.items_for(PAT)
ITEMS["f"] = ("f1", "f2")
S.NAMES["f"] = "Phi"


def D(letter, variant=0):
    """variant 0: the pool's dimension; 1: another Dimension object re-using the letter (different name/items)"""
    if variant == 0:
        return S.make_dimension(letter, ITEMS[letter])
    return S.make_dimension(letter, ("x1", "x2", "x3", "x4"), name="Other" + letter.upper())


def mkset(letters, zero=False):
    from flodym import DimensionSet

    if zero:  # every dimension has an EMPTY item list
        return DimensionSet(dim_list=[S.make_dimension(l, ()) for l in letters])
    return DimensionSet(dim_list=[D(l) for l in letters])


def sig(ds):
    return [(d.letter, d.name, tuple(d.items)) for d in ds.dim_list]


def msig(letters, zero=False):
    return [(l, S.NAMES[l], () if zero else tuple(ITEMS[l])) for l in letters]


# ---- E1 -------------------------------------------------------------------------------------------


def model_binop(op, x, y):
    if op in ("|", "union_with"):
        return list(x) + [l for l in y if l not in x]
    if op in ("&", "intersect_with"):
        return [l for l in x if l in y]
    if op in ("-", "difference_with"):
        return [l for l in x if l not in y]
    if op == "^":
        return [l for l in x if l not in y] + [l for l in y if l not in x]
    if op == "+":
        return None if any(l in y for l in x) else list(x) + list(y)
    raise ValueError(op)


BINOPS = ("|", "&", "-", "^", "+", "union_with", "intersect_with", "difference_with")


def run_pair_case(x, y, op, rhs_kind):
    case = dict(kind="pair", x=x, y=y, op=op, rhs=rhs_kind)

    def fail(kind, what):
        return "fail", dict(case=case, tags=dict(kind=kind, op=op), what=f"({x!r}) {op} ({y!r}) [{rhs_kind}]: {what}")

    X = mkset(x, zero=(rhs_kind == "set-zero"))
    if rhs_kind == "set-zero":
        Y = mkset(y, zero=True)
    elif rhs_kind == "set-variant":
        # the right set holds, for every shared letter, ANOTHER Dimension object (other name and items)
        from flodym import DimensionSet

        Y = DimensionSet(dim_list=[D(l, 1 if l in x else 0) for l in y])
    else:
        Y = mkset(y) if rhs_kind == "set" else D(y[0])
    before = sig(X), (sig(Y) if rhs_kind != "dimension" else None)
    fn = {
        "|": lambda: X | Y, "&": lambda: X & Y, "-": lambda: X - Y, "^": lambda: X ^ Y, "+": lambda: X + Y,
        "union_with": lambda: X.union_with(Y), "intersect_with": lambda: X.intersect_with(Y), "difference_with": lambda: X.difference_with(Y),
    }[op]
    st, got = attempt(fn)
    want = model_binop(op, x, y)
    if want is None:
        if st != "raised":
            return fail("must-raise", "'+' of overlapping sets must be refused")
        return "refused-as-required", None
    if st == "raised":
        return fail("raised", f"raised {got}")
    wsig = msig(want, zero=(rhs_kind == "set-zero"))
    if rhs_kind == "set-variant":  # dimensions the result takes from the right set are the variant objects
        ysig = {d[0]: d for d in sig(Y)}
        wsig = [w if w[0] in x else ysig[w[0]] for w in wsig]
    if sig(got) != wsig:
        return fail("order", f"result {[(s[0], s[1]) for s in sig(got)]}, expected {[(w[0], w[1]) for w in wsig]} (left set's dimensions first, then the right set's new ones)")
    if sig(X) != before[0] or (rhs_kind != "dimension" and sig(Y) != before[1]):
        return fail("operand-changed", "an operand was modified")
    return "agrees-with-model", None


def run_dimplus_case(x):
    """Dimension + Dimension and Dimension + DimensionSet: refuse overlap, else ordered result"""
    case = dict(kind="dimplus", x=x)
    left = D(x[0])
    probs = []
    for other, letters in ((D(x[0]), None), (D(x[0], 1), None), (mkset(x), None), (mkset(x[1:]), [x[0]] + list(x[1:]))) + (((D("f"), [x[0], "f"]),) if x[0] != "f" else ()):
        st, got = attempt(lambda: left + other)
        if letters is None:
            if st != "raised":
                probs.append(f"Dimension {x[0]!r} + an operand that already has letter {x[0]!r} was accepted: {[d.letter for d in got]}")
        elif st == "raised" or [d.letter for d in got] != letters:
            probs.append(f"Dimension {x[0]!r} + {letters[1:]} gave {got if st == 'raised' else [d.letter for d in got]}")
    if probs:
        return "fail", dict(case=case, tags=dict(kind="dimplus", op="+"), what="; ".join(probs[:2]))
    return "agrees-with-model", None


def run_lookup_case(x):
    case = dict(kind="lookup", x=x)

    def fail(what):
        return "fail", dict(case=case, tags=dict(kind="lookup"), what=f"lookups on ({x!r}): {what}")

    X = mkset(x)
    n = len(x)

    def go():
        probs = []
        if tuple(X.letters) != tuple(x):
            probs.append(f"letters {X.letters}")
        if tuple(X.names) != tuple(S.NAMES[l] for l in x):
            probs.append(f"names {X.names}")
        if X.string != "".join(x):
            probs.append(f"string {X.string!r}")
        shape = tuple(len(ITEMS[l]) for l in x)
        if tuple(X.shape) != shape:
            probs.append(f"shape {X.shape}")
        tot = 1
        for k in shape:
            tot *= k
        if X.total_size != tot:
            probs.append(f"total_size {X.total_size}")
        if X.ndim != n or len(X) != n or bool(X) != (n > 0):
            probs.append("ndim/len/bool")
        for i, l in enumerate(x):
            for key in (l, S.NAMES[l], i):
                d = X[key]
                if d.letter != l:
                    probs.append(f"X[{key!r}] -> {d.letter}")
            if X[i - n].letter != l:
                probs.append(f"negative position {i-n}")
            if X.index(l) != i or X.index(S.NAMES[l]) != i:
                probs.append(f"index({l})")
            if X.size(l) != len(ITEMS[l]) or X.size(S.NAMES[l]) != len(ITEMS[l]):
                probs.append(f"size({l})")
            if not (l in X and S.NAMES[l] in X and D(l) in X):
                probs.append(f"membership of {l}")
        # membership is by letter or name, not by substring of the concatenated letters
        for probe in ["", "".join(x), "".join(x[:2]), "".join(x[-2:]), "".join(reversed(x))] + [S.NAMES[l][:3] for l in x]:
            if len(probe) != 1 and probe not in [S.NAMES[l] for l in x] and probe in X:
                probs.append(f"{probe!r} reported as a member")
        for l in "abcdef":
            if l not in x:
                if l in X or S.NAMES[l] in X or D(l) in X:
                    probs.append(f"membership of absent {l}")
                for f in (lambda: X[l], lambda: X.index(l), lambda: X.size(l)):
                    if attempt(f)[0] != "raised":
                        probs.append(f"lookup of absent {l} did not raise")
        if [d.letter for d in X] != list(x):
            probs.append("iteration order")
        if not x:
            # a very large set (16 dimensions of 16 items): total_size is the product of the shape, as a Python integer
            import string

            from flodym import DimensionSet as _DS

            big = _DS(dim_list=[S.make_dimension(l, tuple(f"{l}{i}" for i in range(16)), name="Dim" + l.upper()) for l in string.ascii_lowercase[:16]])
            if tuple(big.shape) != (16,) * 16 or big.total_size != 16 ** 16:
                probs.append(f"16 dimensions of 16 items: total_size {big.total_size}, product of the shape {16 ** 16}")
        # two dimensions that share a NAME but not the letter (e.g. origin and destination region): whatever a lookup
        # by that name gives, lookups by letter and position still agree with the order
        from flodym import DimensionSet

        for pos in ((0, n) if n else ()):
            twin = S.make_dimension("f", ITEMS["f"], name=S.NAMES[x[-1 if pos == 0 else 0]])
            dl = [D(l) for l in x]
            dl.insert(pos, twin)
            st2, Z = attempt(lambda: DimensionSet(dim_list=dl))
            if st2 == "raised":
                continue  # refusing duplicate names is fine
            order = [d.letter for d in dl]
            for i, l in enumerate(order):
                if Z[l].letter != l or Z[i].letter != l or Z.index(l) != i or Z.size(l) != len(ITEMS[l]) or l not in Z:
                    probs.append(f"with a namesake dimension 'f' at position {pos}: lookups by letter {l!r} / position {i} disagree with the order {order}")
            if tuple(Z.letters) != tuple(order) or tuple(Z.shape) != tuple(len(ITEMS[l]) for l in order):
                probs.append(f"with a namesake dimension: letters / shape disagree with the order {order}")
        return probs

    st, probs = attempt(go)
    if st == "raised":
        return fail(f"raised {probs}")
    if probs:
        return fail("; ".join(probs[:4]))
    return "lookups-agree", None


def run_subset_case(x, sel, style):
    case = dict(kind="subset", x=x, sel=sel, style=style)
    X = mkset(x)
    keys = tuple(l if (style == "letters" or (style == "mixed" and k % 2 == 0)) else S.NAMES[l] for k, l in enumerate(sel))

    def fail(what):
        return "fail", dict(case=case, tags=dict(kind="subset", style=style), what=f"subset {keys} of ({x!r}): {what}")

    bad = any(l not in x for l in sel)
    forms = [("get_subset", lambda: X.get_subset(keys), False), ("getitem", lambda: X[keys], False)]
    # the same request as a list and as one-shot iterables (accepting those is optional, a wrong subset is not)
    forms += [("get_subset(list)", lambda: X.get_subset(list(keys)), False), ("get_subset(generator)", lambda: X.get_subset(k for k in keys), True), ("get_subset(reversed)", lambda: X.get_subset(reversed(keys[::-1])), True)]
    if style == "letters" and all(len(k) == 1 for k in keys):
        forms.append(("get_subset(str)", lambda: X.get_subset("".join(keys)), True))
    for how, fn, optional in forms:
        st, got = attempt(fn)
        if optional and st == "raised":
            continue
        if bad:
            if st != "raised":
                return fail(f"{how} with a dimension not in the set must raise")
            continue
        if st == "raised":
            return fail(f"{how} raised {got}")
        if sig(got) != msig(sel):
            return fail(f"{how} returned {[s[0] for s in sig(got)]}, expected the requested order {list(sel)}")
        if sig(X) != msig(x):
            return fail("receiver changed")
    return "refused-as-required" if bad else "agrees-with-model", None


# ---- E2 -------------------------------------------------------------------------------------------

POOL = ["cd", "da", "e"]


def e2_ops():
    ops = []
    for tgt in ("R", "S"):
        for inplace in (True, False):
            for dim in ("e", "f", "clash", "present"):
                ops.append(dict(op="append", tgt=tgt, inplace=inplace, dim=dim))
                ops.append(dict(op="prepend", tgt=tgt, inplace=inplace, dim=dim))
            for dim in ("e", "clash"):
                ops.append(dict(op="insert", tgt=tgt, inplace=inplace, dim=dim, pos=1))
                ops.append(dict(op="expand_by", tgt=tgt, inplace=inplace, dim=dim))
                ops.append(dict(op="expand_by2", tgt=tgt, inplace=inplace, dim=dim, order="first"))
                ops.append(dict(op="expand_by2", tgt=tgt, inplace=inplace, dim=dim, order="last"))
                ops.append(dict(op="replace", tgt=tgt, inplace=inplace, dim=dim, key="first"))
            # two NEW dimensions that share a letter, added in one call
            ops.append(dict(op="expand_by_twins", tgt=tgt, inplace=inplace))
            # the replacement carries the NAME of the replaced dimension but the LETTER of another one (a clash)
            ops.append(dict(op="replace", tgt=tgt, inplace=inplace, dim="clash-samename", key="first"))
            ops.append(dict(op="drop", tgt=tgt, inplace=inplace, key="first"))
            ops.append(dict(op="drop", tgt=tgt, inplace=inplace, key="last-by-name"))
            ops.append(dict(op="drop", tgt=tgt, inplace=inplace, key="absent"))
            if tgt == "R":  # the documented aliases: remove = drop, extend = expand_by
                ops.append(dict(op="drop", tgt=tgt, inplace=inplace, key="first", alias=True))
                ops.append(dict(op="expand_by", tgt=tgt, inplace=inplace, dim="e", alias=True))
                ops.append(dict(op="expand_by", tgt=tgt, inplace=inplace, dim="clash", alias=True))
        for p in POOL:
            ops.append(dict(op="union", tgt=tgt, other=p))
            ops.append(dict(op="intersect", tgt=tgt, other=p))
            ops.append(dict(op="difference", tgt=tgt, other=p))
        ops.append(dict(op="get_subset_noargs", tgt=tgt))
        ops.append(dict(op="get_subset_first", tgt=tgt))
        ops.append(dict(op="copy", tgt=tgt))
        ops.append(dict(op="tuple_select_rev", tgt=tgt))
    ops.append(dict(op="new_array_from", tgt="S"))
    return ops


class St:
    pass


def build_state(start):
    from flodym import FlodymArray

    st = St()
    st.R = mkset(start)
    st.mR = list(start)
    st.S = None
    st.mS = None
    st.A = FlodymArray(dims=st.R)
    st.mA = list(start)
    return st


def pick_dim(kind, letters):
    """returns (Dimension, model letter, clash?)"""
    if kind in ("e", "f"):
        return D(kind), kind, kind in letters
    if kind == "clash":
        if not letters:
            return D("a"), "a", False
        return D(letters[-1], 1), letters[-1], True
    if kind == "clash-samename":
        if not letters:
            return D("a"), "a", False
        return S.make_dimension(letters[-1], ("x1", "x2", "x3", "x4"), name=S.NAMES[letters[0]]), letters[-1], True
    if not letters:
        return D("a"), "a", False
    return D(letters[0]), letters[0], True


def apply_op(st, op, check):
    tgt = op["tgt"]
    obj = st.R if tgt == "R" else st.S
    mod = st.mR if tgt == "R" else st.mS

    def fail(kind, what):
        return "fail", dict(case={}, tags=dict(kind=kind, op=op["op"], inplace=op.get("inplace")), what=f"{op}: {what}")

    if obj is None:
        return "no-such-register", None
    before = (sig(st.R), sig(st.S) if st.S is not None else None, sig(st.A.dims), tuple(st.A.values.shape))
    name = op["op"]
    must_raise = False
    new_model = None  # model of the result (in-place: new content of target; else: new S)
    inplace = op.get("inplace", False)
    if name == "expand_by_twins":
        # two dimensions that are both new to the set but carry the SAME letter: a clash among the added ones
        must_raise = True
        new_model = None
        call = lambda: obj.expand_by([D("e"), D("e", 1)], inplace=inplace)
    elif name == "expand_by2":
        # two dimensions at once: a fresh one (f) together with `dim` (fresh e or a clash), in both orders
        dim, ml, clash = pick_dim(op["dim"], mod)
        other = D("f")
        clash = clash or ("f" in mod)
        must_raise = clash
        pair = [dim, other] if op["order"] == "first" else [other, dim]
        mls = [ml, "f"] if op["order"] == "first" else ["f", ml]
        new_model = mod + mls
        call = lambda: obj.expand_by(pair, inplace=inplace)
    elif name in ("append", "prepend", "insert", "expand_by", "replace"):
        dim, ml, clash = pick_dim(op["dim"], mod)
        if name == "replace":
            if not mod:
                must_raise = True
            else:
                key = mod[0]
                clash = ml in mod
                if ml == key:
                    return "unspecified-skipped", None
                must_raise = clash
                new_model = [ml] + mod[1:]
            call = lambda: obj.replace(mod[0] if mod else "a", dim, inplace=inplace)
        else:
            must_raise = clash
            if name == "append":
                new_model = mod + [ml]
                call = lambda: obj.append(dim, inplace=inplace)
            elif name == "prepend":
                new_model = [ml] + mod
                call = lambda: obj.prepend(dim, inplace=inplace)
            elif name == "insert":
                pos = min(op["pos"], len(mod))
                new_model = mod[:pos] + [ml] + mod[pos:]
                call = lambda: obj.insert(pos, dim, inplace=inplace)
            else:
                new_model = mod + [ml]
                call = (lambda: obj.extend([dim], inplace=inplace)) if op.get("alias") else (lambda: obj.expand_by([dim], inplace=inplace))
    elif name == "drop":
        if op["key"] == "absent":
            must_raise = True
            call = lambda: obj.drop("z", inplace=inplace)
        elif not mod:
            must_raise = True
            call = lambda: obj.drop("a", inplace=inplace)
        elif op["key"] == "first":
            new_model = mod[1:]
            call = (lambda: obj.remove(mod[0], inplace=inplace)) if op.get("alias") else (lambda: obj.drop(mod[0], inplace=inplace))
        else:
            new_model = mod[:-1]
            call = lambda: obj.drop(S.NAMES[mod[-1]], inplace=inplace)
    elif name in ("union", "intersect", "difference"):
        other = mkset(op["other"])
        o = list(op["other"])
        if name == "union":
            new_model = mod + [l for l in o if l not in mod]
            call = lambda: obj | other
        elif name == "intersect":
            new_model = [l for l in mod if l in o]
            call = lambda: obj & other
        else:
            new_model = [l for l in mod if l not in o]
            call = lambda: obj - other
    elif name == "get_subset_noargs":
        new_model = list(mod)
        call = lambda: obj.get_subset()
    elif name == "get_subset_first":
        if not mod:
            new_model = []
            call = lambda: obj.get_subset(())
        else:
            new_model = [mod[0]]
            call = lambda: obj.get_subset((mod[0],))
    elif name == "copy":
        new_model = list(mod)
        call = lambda: obj.copy()
    elif name == "tuple_select_rev":
        new_model = list(reversed(mod))
        call = lambda: obj[tuple(reversed(mod))]
    elif name == "new_array_from":
        from flodym import FlodymArray

        def call():
            st.A = FlodymArray(dims=obj)
            return None

        new_model = "A"
    status, got = attempt(call)
    if must_raise:
        if status != "raised":
            return fail("must-raise", "a clash / unknown dimension must be rejected but was accepted")
        if check:
            after = (sig(st.R), sig(st.S) if st.S is not None else None, sig(st.A.dims), tuple(st.A.values.shape))
            if after != before:
                return fail("changed-on-error", "the rejected operation changed a set or the array")
        return "rejected-as-required", None
    if status == "raised":
        return fail("raised", f"raised {got}")
    if new_model == "A":
        st.mA = list(mod)
    elif inplace:
        if got is not None:
            return fail("inplace-returned", "an in-place operation returned a value")
        if tgt == "R":
            st.mR = new_model
        else:
            st.mS = new_model
    else:
        st.S = got
        st.mS = new_model
    if check:
        if sig(st.R) != msig(st.mR):
            return fail("receiver", f"R is {[s[0] for s in sig(st.R)]}, model {st.mR}")
        if st.S is not None and sig(st.S) != msig(st.mS):
            return fail("result", f"S is {[s[0] for s in sig(st.S)]}, model {st.mS}")
        if sig(st.A.dims) != msig(st.mA):
            return fail("array-dims", f"the array built earlier now has dims {[s[0] for s in sig(st.A.dims)]}, model {st.mA}")
        for reg in (st.R, st.S, st.A.dims):
            if reg is not None:
                if len(set(reg.letters)) != len(reg.letters):
                    return fail("duplicate-letters", f"letters {reg.letters}")
                if tuple(reg.shape) != tuple(len(ITEMS[l]) for l in reg.letters):
                    return fail("shape", f"shape {reg.shape} for letters {reg.letters}")
        if tuple(st.A.values.shape) != tuple(st.A.dims.shape):
            return fail("array-shape", "array values no longer match its dims")
    return "stepped", None


def canon(st):
    regs = [st.R, st.S, st.A.dims]
    ids = [id(r.dim_list) if r is not None else None for r in regs]
    part = tuple(ids.index(i) if i is not None else -1 for i in ids)
    return (tuple(st.R.letters), tuple(st.S.letters) if st.S is not None else None, tuple(st.A.dims.letters), part)


# ---- driver ---------------------------------------------------------------------------------------


def bounds(tier):
    return dict(e1_pairs=65 * 65, e2_depth=3 if tier == "quick" else 4, e2_alphabet=len(e2_ops()), e2_starts=["ab", "cab", ""])


def units(tier, seed):
    arrs = ["".join(a) for a in S.arrangements("abcd")]
    out = []
    for x in arrs:
        out.append(dict(kind="pairs", x=x))
    ops = e2_ops()
    for start in ("ab", "cab", ""):
        for k in range(len(ops)):
            out.append(dict(kind="bfs", start=start, first=k, depth=3 if tier == "quick" else 4))
    return out


def run_unit(u):
    res = dict(evals=0, nontrivial=0, outcomes={}, fails=[], samples=[], states=0, transitions=0, traces=0)

    def rec(oc, f, nt=True):
        res["evals"] += 1
        res["nontrivial"] += 1 if nt else 0
        res["outcomes"][oc] = res["outcomes"].get(oc, 0) + 1
        if f:
            res["fails"].append(f)

    if u["kind"] == "pairs":
        x = u["x"]
        arrs = ["".join(a) for a in S.arrangements("abcd")]
        for y in arrs:
            for op in BINOPS:
                rec(*run_pair_case(x, y, op, "set"), nt=bool(x or y))
                if op in ("|", "&", "-", "union_with") and any(l in x for l in y):
                    rec(*run_pair_case(x, y, op, "set-variant"))
                if op in ("+", "&", "|", "-") and (x or y):  # sets whose dimensions have no items are still sets of dimensions
                    rec(*run_pair_case(x, y, op, "set-zero"))
                if len(y) == 1:  # a single Dimension as right operand (accepted by the signatures) acts as the one-element set
                    rec(*run_pair_case(x, y, op, "dimension"))
        # '+' with a single Dimension as LEFT operand: a one-element set; overlap must be refused as well
        if len(x) >= 1:
            rec(*run_dimplus_case(x))
        rec(*run_lookup_case(x), nt=bool(x))
        for sel in arrs:
            if all(l in x for l in sel) or len(sel) <= 2:
                for style in ("letters", "names", "mixed"):
                    if style == "mixed" and len(sel) < 2:
                        continue
                    rec(*run_subset_case(x, sel, style), nt=bool(sel))
        # constructor with a repeated letter must be refused
        if x:
            from flodym import DimensionSet

            for variant in (0, 1):
                st, got = attempt(lambda: DimensionSet(dim_list=[D(l) for l in x] + [D(x[0], variant)]))
                rec("refused-as-required" if st == "raised" else "fail", None if st == "raised" else dict(case=dict(kind="ctor", x=x, variant=variant), tags=dict(kind="ctor"), what=f"DimensionSet with letters {x + x[0]} was accepted"))
        if x == "cab":
            res["samples"].append(dict(kind="pair", x="cab", y="bd", op="^", meaning="(c,a,b) ^ (b,d) == (c,a,d): left difference first, then the right's"))
        return res
    ops = e2_ops()
    r = bfs.explore(lambda: build_state(u["start"]), ops, apply_op, canon, u["depth"], prefix=[ops[u["first"]]])
    for f in r["fails"]:
        f["case"] = dict(kind="bfs", start=u["start"], history=f["case"]["history"])
        f["what"] = f"start R=({u['start']}), history {[(o['op'], o['tgt'], o.get('inplace'), o.get('dim', o.get('other', o.get('key')))) for o in f['case']['history']]}: " + f["what"]
    res.update(evals=r["transitions"], nontrivial=r["transitions"] - r["outcomes"].get("no-such-register", 0), outcomes=r["outcomes"], fails=r["fails"], states=r["states"], transitions=r["transitions"], traces=r["traces"])
    if u["first"] == 70 and u["start"] == "ab":
        res["samples"].append(dict(kind="bfs", start="ab", history=["S := R.get_subset()", "S.append(e, inplace=True)"], meaning="R must still be (a,b) and the array built from R must keep its dims"))
    return res


def replay(case):
    if case["kind"] == "pair":
        oc, f = run_pair_case(case["x"], case["y"], case["op"], case["rhs"])
        return [f] if f else []
    if case["kind"] == "dimplus":
        oc, f = run_dimplus_case(case["x"])
        return [f] if f else []
    if case["kind"] == "lookup":
        oc, f = run_lookup_case(case["x"])
        return [f] if f else []
    if case["kind"] == "subset":
        oc, f = run_subset_case(case["x"], case["sel"], case["style"])
        return [f] if f else []
    if case["kind"] == "ctor":
        from flodym import DimensionSet

        st, got = attempt(lambda: DimensionSet(dim_list=[D(l) for l in case["x"]] + [D(case["x"][0], case["variant"])]))
        return [] if st == "raised" else [dict(case=case, what="duplicate letters accepted")]
    st = build_state(case["start"])
    for op in case["history"]:
        oc, f = apply_op(st, op, True)
        if f:
            f["case"] = case
            return [f]
    return []
