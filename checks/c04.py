"""C04 - results do not depend on the storage order of dimensions.

E1 (metamorphic): operation catalogue x base configuration x EVERY permutation of the storage order
of each participant (operand, pre-declared target, right-hand side, parameter): one participant at
a time exhaustively (24 orders at 4 dims) and all joint permutations when the participants have <= 3
dims.  Oracle: the same call on the permuted participant (values transposed accordingly) must give
the same entries under the same labels as the unpermuted call, and the result's own dimension order
must follow the documented rule (left operand first / the target's order / the requested order).
Deliberately independent of the reference model: the implementation is compared with itself.
"""

import itertools

import numpy as np

from mc import observe, spaces as S
from mc.util import attempt

PROPERTY = "C04"
LEVEL = "exploration"
ENGINE = "E1-enumeration"
TECHNIQUE = "bounded exhaustive enumeration of storage-order permutations of every participant; differential (metamorphic) comparison of the real code with itself by label"
RULE = (
    "complete enumeration of (operation: 7 arithmetic operators, whole-array and keyed assignment with surplus "
    "dims, reads with 5 key forms, sum_to / sum_over / cast_to / get_shares_over / cumsum, to_df in 4 layouts -> "
    "from_df in both directions, flodym_array_stack / split, lifetime-model parameters for 2 distributions) x "
    "(base configuration: 4 operand dimension patterns) x (length pattern: all-2, all-3, 2/3/2/3) x (every "
    "permutation of each participant's storage order, one participant at a time; all joint permutations when "
    "every participant has <= 3 dims). Non-trivial = permuted participant has >= 2 dims and the permutation is "
    "not the identity; every permuted variant is run with three rotations of the value-buffer provenances (C, Fortran, strided view) over the participants. Distinct by construction."
    " Also: pipelines (used operands, derived operands, x**y twice, writes into cast / sum / slice results), from_dims_superset, a frame without two single-item dimensions."
)
ASSUMPTIONS = [
    "values are integer label codes (exact sums in any summation order); divisors are powers of two",
    "bounds: <= 4 dimensions per participant, <= 3 items per dimension",
    "the differential oracle cannot see an error that is the same for every storage order - C01 / C05 / C06 / C07 / C11 compare with the reference model",
]
LEVEL_TEXT = (
    "For every operation of the catalogue every storage order of every participating array is executed on the real "
    "code and the result is compared, by label, with the result for the unpermuted participants; equal-length "
    "dimensions are always present, so a silent transposition that keeps the shape is visible."
)
LEVEL_NOTE = "Pure implementation-vs-implementation oracle plus the documented order rules. Bounded sizes."

PATTERNS = ("all2", "all3", "2323")


def canon(arr):
    m = observe.arr(arr)
    return {frozenset(zip(m.letters, lab)): v for lab, v in m.data.items()}, m.letters


def mk(letters, items, maker, prov="C"):
    return S.flodym_array(tuple(letters), items, maker(tuple(letters), items), prov)


VX, VY, VZ = S.val_base(5, 1), S.val_base(3, 2), S.val_base(7, 3)
VP2 = S.val_halfpow(0)  # not order-invariant by enumeration -> only used through a label function below


def halfpow_by_label(letters, items):
    f = S.val_base(2, 0)(letters, items)
    return lambda lab: float(2.0 ** ((int(f(lab)) % 5) - 2))


def small_exp(letters, items):
    """small whole exponents that differ under every swap of two dimensions' positions (weights 1, 2, 3, 5, 7 mod 4)"""
    w = {"a": 1, "b": 2, "c": 3, "d": 5, "e": 7}

    def f(lab):
        return float(sum(w[l] * items[l].index(it) for l, it in zip(letters, lab)) % 4)

    return f


def sub_dim(letter, items, order):
    its = list(items[letter])
    sel = its[::-1][:2] if order == "rev" else its[:2]
    return S.make_dimension("w", sel, name="Sub" + letter.upper())


# each op: (name, participants {role: (base letters, value maker)}, fn(P, items) -> result, rule(letters dict) -> expected letters or None)
def ops_catalogue():
    ops = []

    def add(name, parts, fn, rule=None):
        ops.append(dict(name=name, parts=parts, fn=fn, rule=rule))

    for cfg, (lx, ly) in {"overlap": ("abc", "bcd"), "subset": ("abcd", "ca"), "same": ("abc", "abc"), "disjoint": ("ab", "cd")}.items():
        common = lambda L: tuple(l for l in L["x"] if l in L["y"])
        union = lambda L: tuple(L["x"]) + tuple(l for l in L["y"] if l not in L["x"])
        add(f"x+y [{cfg}]", dict(x=(lx, VX), y=(ly, VY)), lambda P, it: P["x"] + P["y"], common)
        add(f"x-y [{cfg}]", dict(x=(lx, VX), y=(ly, VY)), lambda P, it: P["x"] - P["y"], common)
        add(f"minimum [{cfg}]", dict(x=(lx, VX), y=(ly, VY)), lambda P, it: P["x"].minimum(P["y"]), common)
        add(f"maximum [{cfg}]", dict(x=(lx, VX), y=(ly, VY)), lambda P, it: P["x"].maximum(P["y"]), common)
        add(f"x*y [{cfg}]", dict(x=(lx, VX), y=(ly, VY)), lambda P, it: P["x"] * P["y"], union)
        add(f"x/y [{cfg}]", dict(x=(lx, VX), y=(ly, halfpow_by_label)), lambda P, it: P["x"] / P["y"], union)
    add("x**y [subset]", dict(x=("abcd", VX), y=("ca", small_exp)), lambda P, it: P["x"] ** P["y"], lambda L: tuple(L["x"]))
    add("x**y [same]", dict(x=("abc", VX), y=("abc", small_exp)), lambda P, it: P["x"] ** P["y"], lambda L: tuple(L["x"]))

    # assignments: result = the target afterwards
    def assign_all(P, it):
        t = P["t"].copy()
        t[...] = P["r"]
        return t

    add("t[...] = r (exact dims)", dict(t=("abc", VZ), r=("abc", VX)), assign_all, lambda L: tuple(L["t"]))
    add("t[...] = r (surplus dim)", dict(t=("abc", VZ), r=("abcd", VX)), assign_all, lambda L: tuple(L["t"]))

    def assign_then_edit(P, it):
        # assign, then edit the TARGET in place, then look at the right-hand side again
        t = P["t"].copy()
        t[...] = P["r"]
        t.values[...] = -1.0
        return P["r"]

    add("t[...] = r; edit t in place; r afterwards", dict(t=("abc", VZ), r=("abc", VX)), assign_then_edit, lambda L: tuple(L["r"]))

    def assign_then_edit_rhs(P, it):
        t = P["t"].copy()
        t[...] = P["r"]
        P["r"].values[...] = -1.0
        return t

    add("t[...] = r; edit r in place; t afterwards", dict(t=("abc", VZ), r=("abc", VX)), assign_then_edit_rhs, lambda L: tuple(L["t"]))

    def assign_item(P, it):
        t = P["t"].copy()
        t[{"b": it["b"][-1]}] = P["r"]
        return t

    add("t[{b: item}] = r", dict(t=("abc", VZ), r=("ac", VX)), assign_item, lambda L: tuple(L["t"]))
    add("t[{b: item}] = r (surplus)", dict(t=("abc", VZ), r=("acd", VX)), assign_item, lambda L: tuple(L["t"]))

    def assign_sub(P, it):
        from flodym import DimensionSet, FlodymArray

        t = P["t"].copy()
        sub = sub_dim("c", it, "rev")
        # rhs over (a, w) in the permuted order of r (w replaces c)
        r = P["r"]
        dl = [sub if d.letter == "c" else d for d in r.dims]
        vals = r[{"c": sub_dim("c", it, "rev")}].values if False else None
        rr = FlodymArray(dims=DimensionSet(dim_list=dl), values=np.take(r.values, [it["c"].index(x) for x in sub.items], axis=r.dims.letters.index("c")))
        t[{"b": it["b"][0], "c": sub}] = rr
        return t

    add("t[{b: item, c: subset}] = r", dict(t=("abc", VZ), r=("ac", VX)), assign_sub, lambda L: tuple(L["t"]))

    def assign_nd(P, it):
        t = P["t"].copy()
        L = t.dims.letters
        region = tuple(l for l in L if l != "a")
        # ndarray for the region in the region's own (permuted) order, built from labels
        f = VX(region, it)
        t[{"a": it["a"][0]}] = S.ndarray_for(region, it, f, "F")
        return t

    add("t[{a: item}] = ndarray", dict(t=("abcd", VZ)), assign_nd, lambda L: tuple(L["t"]))

    # reads
    add("x[{b: item}]", dict(x=("abcd", VX)), lambda P, it: P["x"][{"b": it["b"][-1]}], lambda L: tuple(l for l in L["x"] if l != "b"))
    add("x[{Beta: item, d: item}]", dict(x=("abcd", VX)), lambda P, it: P["x"][{"Beta": it["b"][0], "d": it["d"][-1]}], lambda L: tuple(l for l in L["x"] if l not in "bd"))
    add("x[item, item]", dict(x=("abcd", VX)), lambda P, it: P["x"][it["c"][0], it["a"][-1]], lambda L: tuple(l for l in L["x"] if l not in "ca"))
    add("x[{a: item, c: subset}]", dict(x=("abcd", VX)), lambda P, it: P["x"][{"a": it["a"][-1], "c": sub_dim("c", it, "rev")}], lambda L: tuple(("w" if l == "c" else l) for l in L["x"] if l != "a"))
    add("x[{b: subset, d: subset}]", dict(x=("abcd", VX)), lambda P, it: P["x"][{"b": sub_dim("b", it, "fwd"), "d": S.make_dimension("v", list(it["d"])[::-1], name="SubD")}], lambda L: tuple({"b": "w", "d": "v"}.get(l, l) for l in L["x"]))
    # reductions
    add("sum_to((c,a))", dict(x=("abcd", VX)), lambda P, it: P["x"].sum_to(("c", "a")), lambda L: ("c", "a"))
    add("sum_to((Delta,b,a))", dict(x=("abcd", VX)), lambda P, it: P["x"].sum_to(("Delta", "b", "a")), lambda L: ("d", "b", "a"))
    add("sum_over((b,))", dict(x=("abcd", VX)), lambda P, it: P["x"].sum_over(("b",)), lambda L: tuple(l for l in L["x"] if l != "b"))
    add("sum_over((d,a))", dict(x=("abcd", VX)), lambda P, it: P["x"].sum_over(("d", "a")), lambda L: tuple(l for l in L["x"] if l not in "da"))
    add("cast_to(T)", dict(x=("abc", VX), T=("dcab", VZ)), lambda P, it: P["x"].cast_to(P["T"].dims), lambda L: tuple(L["T"]))
    add("cast_to(T same dims)", dict(x=("abc", VX), T=("cab", VZ)), lambda P, it: P["x"].cast_to(P["T"].dims), lambda L: tuple(L["T"]))
    add("get_shares_over((b,c))", dict(x=("abcd", halfpow_by_label)), lambda P, it: P["x"].get_shares_over(("b", "c")), lambda L: None)
    add("cumsum(b)", dict(x=("abcd", VX)), lambda P, it: P["x"].cumsum("b"), lambda L: tuple(L["x"]))
    add("cumsum(d) in place", dict(x=("abcd", VX)), lambda P, it: (P["x"].cumsum("d", inplace=True), P["x"])[1], lambda L: tuple(L["x"]))

    # pipelines: the operand has been used before, and the result of one operation is the operand of the next
    def slice_sum_slice(P, it):
        P["x"][{"b": it["b"][0]}]
        s1 = P["x"].sum_to(("d", "a", "c"))
        return s1[{"a": it["a"][-1]}]

    add("x[{b: item}]; s = x.sum_to((d,a,c)); s[{a: item}]", dict(x=("abcd", VX)), slice_sum_slice, lambda L: ("d", "c"))

    def slice_add_slice(P, it):
        P["x"][{"a": it["a"][0]}]
        z = P["x"] + P["y"]
        return z[{"c": it["c"][-1]}]

    add("x[{a: item}]; z = x + y; z[{c: item}]", dict(x=("abcd", VX), y=("dcb", VY)), slice_add_slice, lambda L: tuple(l for l in L["x"] if l in "bd"))

    def sum_over_assign(P, it):
        P["x"][{"d": it["d"][0]}]
        s1 = P["x"].sum_over(("b",))
        s1[{"c": it["c"][0]}] = P["y"]
        return s1

    add("x[{d: item}]; s = x.sum_over((b,)); s[{c: item}] = y", dict(x=("abcd", VX), y=("da", VY)), sum_over_assign, lambda L: tuple(l for l in L["x"] if l != "b"))

    def pow_twice(P, it):
        P["x"] ** P["y"]
        return P["x"] ** P["y"]

    add("x**y twice [same]", dict(x=("abc", VX), y=("abc", small_exp)), pow_twice, lambda L: tuple(L["x"]))
    add("x**y twice [subset]", dict(x=("abcd", VX), y=("ca", small_exp)), pow_twice, lambda L: tuple(L["x"]))
    add("x**y; y afterwards", dict(x=("abc", VX), y=("abc", small_exp)), lambda P, it: (P["x"] ** P["y"], P["y"])[1], lambda L: tuple(L["y"]))
    add("x*y; y afterwards", dict(x=("abc", VX), y=("abc", VY)), lambda P, it: (P["x"] * P["y"], P["y"])[1], lambda L: tuple(L["y"]))
    add("x/y; y afterwards", dict(x=("abc", VX), y=("abc", halfpow_by_label)), lambda P, it: (P["x"] / P["y"], P["y"])[1], lambda L: tuple(L["y"]))

    def cast_write_source(P, it):
        c1 = P["x"].cast_to(P["T"].dims)
        c1[{"a": it["a"][0]}] = -1.0
        return P["x"]

    add("c = x.cast_to(T same dims); c[{a: item}] = -1; x afterwards", dict(x=("abc", VX), T=("cab", VZ)), cast_write_source, lambda L: tuple(L["x"]))
    add("c = x.cast_to(T); c[{a: item}] = -1; x afterwards", dict(x=("abc", VX), T=("dcab", VZ)), cast_write_source, lambda L: tuple(L["x"]))

    def sum_write_source(P, it):
        s1 = P["x"].sum_to(("c", "a"))
        s1.values[...] = -1.0
        return P["x"]

    add("s = x.sum_to((c,a)); overwrite s; x afterwards", dict(x=("abc", VX)), sum_write_source, lambda L: tuple(L["x"]))

    def slice_write_source(P, it):
        s1 = P["x"][{"b": it["b"][0]}]
        s1.values[...] = -1.0
        return P["x"]

    add("s = x[{b: item}]; overwrite s; x afterwards", dict(x=("abcd", VX)), slice_write_source, lambda L: tuple(L["x"]))

    # data frames: export from the permuted array, import into the base order (and vice versa)
    def df_roundtrip(layout):
        def fn(P, it):
            from flodym import FlodymArray

            x = P["x"]
            if layout == "index":
                df = x.to_df()
            elif layout == "columns":
                df = x.to_df(index=False)
            elif layout == "wide":
                df = x.to_df(dim_to_columns="Gamma")
            else:
                df = x.to_df(sparse=True)
            return FlodymArray.from_df(dims=P["T"].dims, df=df, allow_missing_values=layout == "sparse")

        return fn

    for layout in ("index", "columns", "wide", "sparse"):
        add(f"to_df({layout}) -> from_df(dims=T)", dict(x=("abc", VX), T=("abc", VZ)), df_roundtrip(layout), lambda L: tuple(L["T"]))

    def marker(raised):
        from flodym import FlodymArray

        return FlodymArray.scalar(1.0 if raised else 0.0)

    def ambiguous_item(P, it):
        # an item shared by dimensions a and c, addressed without naming a dimension: refused in EVERY storage order
        from flodym import Dimension, DimensionSet, FlodymArray

        L = P["x"].dims.letters
        its = {"a": ["a1", "shared"], "b": ["b1", "b2"], "c": ["shared", "c2"]}
        ds = DimensionSet(dim_list=[Dimension(name=S.NAMES[l], letter=l, items=its[l]) for l in L])
        X = FlodymArray(dims=ds, values=np.arange(8.0).reshape(2, 2, 2))
        try:
            X["shared"]
            r1 = False
        except Exception:
            r1 = True
        try:
            X["b1", "shared"] = 1.0
            r2 = False
        except Exception:
            r2 = True
        return marker(r1 and r2)

    add("x['shared'] (item in two dims) is refused", dict(x=("abc", VX)), ambiguous_item, lambda L: ())

    def lacking_rhs(P, it):
        # a right-hand side lacking a dimension of the target is refused whatever the target's storage order
        t = P["t"].copy()
        out = []
        for key in (Ellipsis, {"a": it["a"][0]}):
            try:
                t[key] = P["r"]
                out.append(False)
            except Exception:
                out.append(True)
        return marker(all(out))

    add("t[...] = r lacking a dim is refused", dict(t=("abc", VZ), r=("c", VX)), lacking_rhs, lambda L: ())
    add("t[...] = r lacking two dims is refused", dict(t=("abcd", VZ), r=("db", VX)), lacking_rhs, lambda L: ())

    def nested_frame(P, it):
        # two dimensions with NESTED item sets, columns identified only through their items, both allow_* flags
        from flodym import Dimension, DimensionSet, FlodymArray

        L = P["T"].dims.letters
        its = {"a": [2000, 2001, 2002, 2003], "b": [2000, 2001], "c": ["c1", "c2"]}
        nm = {"a": "Alpha", "b": "Beta", "c": "Gamma"}
        base = DimensionSet(dim_list=[Dimension(name=nm[l], letter=l, items=its[l]) for l in "abc"])
        v = np.arange(16.0).reshape(4, 2, 2) * 3.0 + 1.0
        df = FlodymArray(dims=base, values=v).to_df(index=False)
        df.columns = ["k0", "k1", "k2", "value"]
        tgt = DimensionSet(dim_list=[Dimension(name=nm[l], letter=l, items=its[l]) for l in L])
        return FlodymArray.from_df(dims=tgt, df=df, allow_missing_values=True, allow_extra_values=True)

    add("from_df(items-only, nested item sets, both flags)", dict(T=("abc", VZ)), nested_frame, lambda L: tuple(L["T"]))

    def frame_without_single_item_dims(P, it):
        # a frame that leaves out TWO single-item dimensions (names in the opposite alphabetical order of the letters)
        from flodym import Dimension, DimensionSet, FlodymArray

        L = P["T"].dims.letters
        its = {"a": ["only zone"], "b": ["only alpha"], "c": ["c1", "c2", "c3"]}
        nm = {"a": "Zone", "b": "Alpha", "c": "Beta"}
        import pandas as pd

        df = pd.DataFrame({"Beta": ["c2", "c3", "c1"], "value": [20.5, 30.5, 10.5]})
        tgt = DimensionSet(dim_list=[Dimension(name=nm[l], letter=l, items=its[l]) for l in L])
        return FlodymArray.from_df(dims=tgt, df=df)

    add("from_df(frame without two single-item dimensions)", dict(T=("abc", VZ)), frame_without_single_item_dims, lambda L: tuple(L["T"]))

    def superset_ctor(P, it):
        # alternative constructor: the new array has the REQUESTED dimension order, whatever order the superset stores
        from flodym import FlodymArray, Parameter

        sup = P["T"].dims
        v = np.array([[100.0 * (1 + ic) + (1 + ia) for ia in range(len(it["a"]))] for ic in range(len(it["c"]))])
        x1 = FlodymArray.from_dims_superset(dims_superset=sup, dim_letters=("c", "a"), values=v)
        x2 = Parameter.from_dims_superset(sup, ("c", "a"), values=v.copy(), name="par")
        if tuple(x2.dims.letters) != tuple(x1.dims.letters) or not np.array_equal(x1.values, x2.values):
            raise AssertionError("FlodymArray.from_dims_superset and Parameter.from_dims_superset disagree")
        return x1

    add("from_dims_superset(superset, (c, a), values)", dict(T=("abcd", VZ)), superset_ctor, lambda L: ("c", "a"))

    def stack(P, it):
        from flodym.flodym_array_helper import flodym_array_stack

        return flodym_array_stack([P["x"], P["y"], P["z"]][: len(it["e"])], S.make_dimension("e", it["e"]))

    add("flodym_array_stack", dict(x=("abc", VX), y=("abc", VY), z=("abc", VZ)), stack, lambda L: tuple(L["x"]) + ("e",))

    def split(P, it):
        parts = P["x"].split("b")
        return parts

    add("split(b)", dict(x=("abcd", VX)), split, None)
    return ops


OPS = ops_catalogue()
OPS_BY_NAME = {o["name"]: o for o in OPS}


def perm_variants(parts, tier):
    """dict role -> permuted letters; identity first"""
    roles = list(parts)
    base = {r: tuple(parts[r][0]) for r in roles}
    yield dict(base)
    for r in roles:
        for p in itertools.permutations(base[r]):
            if p != base[r]:
                v = dict(base)
                v[r] = p
                yield v
    if len(roles) > 1 and all(len(base[r]) <= 3 for r in roles):
        for combo in itertools.product(*[list(itertools.permutations(base[r])) for r in roles]):
            if sum(1 for r, p in zip(roles, combo) if p != base[r]) >= 2:
                yield dict(zip(roles, combo))


def run_op(opname, pattern, letters, provs=None):
    op = OPS_BY_NAME[opname]
    items = dict(S.items_for(pattern))
    items["e"] = items["e"][: len(op["parts"])] if opname == "flodym_array_stack" else items["e"]
    P = {}
    for k, (r, (base, maker)) in enumerate(op["parts"].items()):
        prov = "C" if provs is None else provs[k % len(provs)]
        P[r] = mk(letters[r], items, maker, prov)
    res = op["fn"](P, items)
    if isinstance(res, dict):
        out = {}
        order = {}
        for key, a in res.items():
            c, l = canon(a)
            out[key] = c
            order[key] = l
        return out, order
    c, l = canon(res)
    return c, l


def run_case(opname, pattern, letters, ref_cache=None, rot=None):
    op = OPS_BY_NAME[opname]
    case = dict(op=opname, pattern=pattern, letters={r: "".join(v) for r, v in letters.items()}, rot=rot)
    which = [r for r in letters if tuple(letters[r]) != tuple(op["parts"][r][0])]

    def fail(kind, what):
        return "fail", dict(case=case, tags=dict(kind=kind, op=opname.split(" [")[0], permuted="+".join(which)), what=f"{opname}, lengths {pattern}, storage orders { {r: ''.join(v) for r, v in letters.items()} }: {what}")

    base = {r: tuple(op["parts"][r][0]) for r in op["parts"]}
    if ref_cache is not None and "ref" in ref_cache:
        ref = ref_cache["ref"]
    else:
        st, ref = attempt(lambda: run_op(opname, pattern, base))
        if st == "raised":
            ref = ("raised", ref)
        if ref_cache is not None:
            ref_cache["ref"] = ref
    provs = None
    if which:
        if rot is None:
            rot = sum((i + 1) * ord(c) for r in sorted(letters) for i, c in enumerate(letters[r])) % 3
        provs = (("C", "F", "view"), ("F", "view", "C"), ("view", "C", "F"))[rot]
    st, got = attempt(lambda: run_op(opname, pattern, letters, provs))
    if isinstance(ref, tuple) and ref and ref[0] == "raised":
        # every operation of the catalogue is valid on the unpermuted participants: a raise here is a
        # change of behaviour of the unpermuted call itself (or a harness error) - report it, never skip
        return fail("base-raised", f"the unpermuted call raised: {ref[1]}")
    if st == "raised":
        return fail("raised", f"raised {got} although the unpermuted call works")
    if got[0] != ref[0]:
        a, b = got[0], ref[0]
        if isinstance(a, dict) and a and isinstance(next(iter(a.values())), dict):
            key = next(k for k in b if a.get(k) != b[k])
            a, b = a.get(key, {}), b[key]
        diff = [(sorted(k), a.get(k), v) for k, v in b.items() if a.get(k) != v][:2]
        return fail("values", f"entries differ from the unpermuted call under the same labels, e.g. {diff}")
    if op["rule"] is not None and not isinstance(got[1], dict):
        want = op["rule"]({r: tuple(v) for r, v in letters.items()})
        if want is not None and tuple(got[1]) != tuple(want):
            return fail("order-rule", f"result dimension order {got[1]}, documented rule gives {tuple(want)}")
    return "same-by-label", None


# ---- lifetime parameters ----------------------------------------------------------------------------


def run_lifetime_case(dist, pshape, grid_kind):
    import flodym
    from flodym import Dimension, DimensionSet, FlodymArray

    case = dict(op="lifetime", dist=dist, pshape=pshape, grid=grid_kind)
    grid = [2000, 2001, 2002] if grid_kind == "unit" else [2000, 2002, 2007]
    T = Dimension(name="Time", letter="t", items=grid, dtype=int)
    Pd = Dimension(name="Product", letter="p", items=["p1", "p2", "p3"])
    Q = Dimension(name="Quality", letter="q", items=["q1", "q2", "q3"])
    dims = DimensionSet(dim_list=[T, Pd, Q])
    D = {"t": T, "p": Pd, "q": Q}

    def param(shape, base, step):
        ds = DimensionSet(dim_list=[D[l] for l in shape])
        v = np.zeros(ds.shape)
        for idx in itertools.product(*[range(n) for n in ds.shape]):
            k = 0  # integer label code first: the value must not depend on the order of the letters
            for l, i in zip(shape, idx):
                k += {"t": 1, "p": 3, "q": 9}[l] * i
            v[idx] = base + step * k
        return FlodymArray(dims=ds, values=v)

    def table(shape):
        if dist == "NormalLifetime":
            lm = flodym.NormalLifetime(dims=dims, mean=param(shape, 2.0, 0.1), std=param(shape[::-1], 0.5, 0.01))
        else:
            lm = flodym.WeibullLifetime(dims=dims)
            lm.set_prms(weibull_shape=param(shape, 1.5, 0.02), weibull_scale=param(shape[::-1], 3.0, 0.1))
        return np.array(lm.sf), np.array(lm.pdf)

    base = "".join(sorted(pshape, key="tpq".index))
    st, ref = attempt(lambda: table(base))
    st2, got = attempt(lambda: table(pshape))
    if st == "raised" or st2 == "raised":
        if st == st2:
            return "both-raise", None
        return "fail", dict(case=case, tags=dict(kind="raised", op="lifetime"), what=f"{dist} with parameters stored as {pshape!r}: {got if st2 == 'raised' else ref}")
    if not (np.array_equal(ref[0], got[0]) and np.array_equal(ref[1], got[1])):
        idx = np.argwhere(ref[0] != got[0])
        return "fail", dict(case=case, tags=dict(kind="values", op="lifetime"), what=f"{dist} on grid {grid}: survival table depends on the storage order of the parameter array ({pshape!r} vs {base!r}), e.g. sf{tuple(int(i) for i in idx[0]) if len(idx) else ''}")
    return "same-by-label", None


def bounds(tier):
    return dict(operations=len(OPS), patterns=list(PATTERNS), lifetime_parameter_orders=16)


def units(tier, seed):
    out = []
    for op in OPS:
        for pat in PATTERNS:
            out.append(dict(kind="op", op=op["name"], pattern=pat, tier=tier))
    out.append(dict(kind="lifetime"))
    return out


def run_unit(u):
    res = dict(evals=0, nontrivial=0, outcomes={}, fails=[], samples=[])

    def rec(oc, f, nt=True):
        res["evals"] += 1
        res["nontrivial"] += 1 if nt else 0
        res["outcomes"][oc] = res["outcomes"].get(oc, 0) + 1
        if f and len(res["fails"]) < 25:
            res["fails"].append(f)

    if u["kind"] == "lifetime":
        shapes = ["".join(p) for k in (1, 2, 3) for p in itertools.permutations("tpq", k)]
        for dist in ("NormalLifetime", "WeibullLifetime"):
            for sh in shapes:
                for g in ("unit", "uneven"):
                    rec(*run_lifetime_case(dist, sh, g), nt=len(sh) >= 2)
        return res
    op = OPS_BY_NAME[u["op"]]
    cache = {}
    for letters in perm_variants(op["parts"], u["tier"]):
        ident = all(tuple(letters[r]) == tuple(op["parts"][r][0]) for r in letters)
        for rot in ((None,) if ident else (0, 1, 2)):
            oc, f = run_case(u["op"], u["pattern"], letters, cache, rot)
            rec(oc, f, nt=not ident)
    if u["op"] == "x*y [overlap]" and u["pattern"] == "all2":
        res["samples"].append(dict(op=u["op"], pattern="all2", letters=dict(x="cab", y="bcd"), meaning="x stored as (c,a,b) instead of (a,b,c), values transposed accordingly: x*y must have the same entry under every label combination; result order (c,a,b,d)"))
    return res


def replay(case):
    if case["op"] == "lifetime":
        oc, f = run_lifetime_case(case["dist"], case["pshape"], case["grid"])
    else:
        oc, f = run_case(case["op"], case["pattern"], {r: tuple(v) for r, v in case["letters"].items()}, None, case.get("rot"))
    return [f] if f else []
