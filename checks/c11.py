"""C11 - DataFrame import is faithful to labels under every supported layout.

E1: dimension sets of 1..3 (thorough 4) dimensions drawn from a pool with typed / untyped int and
str items and single-item dimensions x layout {long, wide over each dimension} x {subset of
dimensions in the index} x header style {names, letters, mixed, items-only} x {single-item
dimensions omitted} x value-column name x row permutation x column permutation x {in memory,
through CSV text} x {dense, sparse + allow_missing_values}; and every to_df layout -> from_df.
Oracle: the imported array equals the record list entry by entry (exact); to_df lists every label
combination exactly once (sparse: exactly the non-zero ones).
"""

import itertools

import numpy as np

from mc import frames as F
from mc.util import attempt

PROPERTY = "C11"
LEVEL = "exploration"
ENGINE = "E1-enumeration"
TECHNIQUE = "bounded exhaustive enumeration of DataFrame layouts built from a record list, imported with the real from_df and compared with the records"
RULE = (
    "complete enumeration of (dimension set: ordered selections of 1-3 dims from a pool of 10 with typed/untyped "
    "int/str items and single-item dims; quick: all 1- and 2-dim sets + 18 three-dim sets) x (long / wide over "
    "each dim) x (index subset: none, first, last, all remaining dims) x (header: names, letters, mixed, "
    "items-only) x (omit each subset of single-item dims) and, rotated over these (8 members of the product per base layout in quick, 16 "
    "in thorough), (value column name) x (row order: identity, reversed, rotation, interleaved) x (column order: "
    "identity, reversed, rotation) x (in memory / CSV text) x (dense / sparse with allow_missing_values); plus "
    "every to_df layout (index or columns, dim_to_columns for each dim, sparse; C / Fortran / strided value buffers) checked row by row and re-imported; every (duplicated row with another value, other row dropped) pair, which must be refused. "
    "one 182 x 182 array (more than 32767 entries; 260 x 260 thorough) in three layouts. Non-trivial = array with >= 2 entries. Distinct by construction."
    " Also: duplicates spelled as text in typed dimensions, a float-item dimension, categorical label columns, infinite entries, a complete NaN line in the wide export."
)
ASSUMPTIONS = [
    "values are distinct non-integer floats that cannot be mistaken for items (precondition of the items-only style)",
    "wide layout needs a second dimension to index the rows; a CSV round trip of a wide layout over an untyped non-string dimension is excluded (headers come back as text; only a declared dtype can disambiguate)",
    "header-less CSV files (first data row consumed as header) are the readers' business, not covered by this property",
    "pandas is the producer of the frames (part of the environment), the expected result comes from the record list",
]
LEVEL_TEXT = (
    "Every supported frame layout within the bound is generated from a logical record list, imported with the real "
    "from_df and compared with the records entry by entry; to_df output is checked row by row against the array."
)
LEVEL_NOTE = "Trusted: the frame builder (mc/frames.py) and pandas as producer. Bounded dimension pool; dimensions with more than 32767 ITEMS are outside the bound (arrays with more than 32767 ENTRIES are covered once)."

SETS3_Q = [("M", "S", "T"), ("G", "S", "T"), ("U", "G", "O"), ("Y", "S", "N"), ("U", "Y", "T"), ("T", "S", "O"), ("S", "T", "U"), ("N", "U", "S"), ("U", "N", "T"), ("T", "N", "I"), ("O", "U", "N"), ("S", "O", "I"), ("I", "T", "S"), ("U", "S", "T")]
ROWPERMS = ("id", "rev", "rot2", "interleave")
COLPERMS = ("id", "rev", "rot1")


def dim_sets(tier):
    pool = list(F.POOL)
    out = [(k,) for k in pool] + list(itertools.permutations(pool, 2))
    if tier == "quick":
        out += SETS3_Q
    else:
        out += list(itertools.permutations(pool, 3))
        out += [("T", "S", "U", "N"), ("N", "O", "S", "T"), ("U", "T", "I", "S")]
    return [list(x) for x in out]


def base_layouts(keys):
    single = [k for k in keys if len(F.POOL[k][2]) == 1]
    for wide in [None] + list(keys):
        if wide is not None and len(keys) < 2:
            continue
        rest = [k for k in keys if k != wide]
        idx_opts = [[]]
        if rest:
            idx_opts += [[rest[0]], list(rest)]
            if len(rest) > 1:
                idx_opts.append([rest[-1]])
        for idx in idx_opts:
            for header in ("names", "letters", "mixed", "items-only"):
                if header == "mixed" and len(rest) < 2:
                    continue
                omits = [[]] + [[k] for k in single if k != wide] + ([[k for k in single if k != wide]] if len([k for k in single if k != wide]) > 1 else [])
                for omit in omits:
                    if wide is not None and not [k for k in rest if k not in omit]:
                        continue  # a wide table needs at least one row-index dimension left
                    yield dict(wide=wide, index=idx, header=header, omit=omit)


def secondary(tier, n, seed=0):
    full = [dict(valname=v, rowperm=r, colperm=c, medium=m, sparse=s, rowindex=ri) for v in ("value", "amount") for r in ROWPERMS for c in COLPERMS for m in ("memory", "csv") for s in (False, True) for ri in ("default", "repeat")]
    # label columns of pandas' categorical dtype (in-memory frames)
    full = full + [dict(d, cat=True) for d in full if d["medium"] == "memory" and d["rowindex"] == "default" and not d["sparse"]]
    full = full + [dict(d, inf=True) for d in full if d["rowindex"] == "default" and d["valname"] == "value" and not d.get("cat")]
    if tier == "thorough":
        # sixteen members of the product per base layout (twice the quick number), over seven times as many dimension sets
        k = (n * 7 + seed * 5) % len(full)
        return [full[(k + 13 * m) % len(full)] for m in range(16)]
    # quick: three members of the full product per base layout, rotating so that every value of every axis
    # (and many pairs) occurs across the base layouts of a dimension set
    k = (n * 7 + seed * 5) % len(full)
    return [full[(k + 13 * m) % len(full)] for m in range(8)]


def bounds(tier):
    return dict(dimension_sets=len(dim_sets(tier)), pool={k: [v[0], str(v[3]), len(v[2])] for k, v in F.POOL.items()}, rowperms=list(ROWPERMS), colperms=list(COLPERMS))


def units(tier, seed):
    return [dict(keys=[], tier=tier, kind="large", seed=seed)] + [dict(keys=ks, tier=tier, kind="layouts", seed=seed) for ks in dim_sets(tier)] + [dict(keys=ks, tier=tier, kind="to_df", seed=seed) for ks in dim_sets(tier)]


def excluded(keys, lay):
    wide = lay.get("wide")
    if lay.get("medium") == "csv" and wide is not None:
        name, letter, items, dtype = F.POOL[wide]
        if dtype is None and not isinstance(items[0], str):
            return True
    if lay.get("sparse") and wide is not None:
        return True  # sparse = dropped rows; defined for the long layout
    if lay.get("medium") == "csv" and "M" in keys:
        return True  # untyped items of mixed type do not survive CSV text (1990 comes back as text or number for all)
    if lay["header"] == "items-only":
        if lay.get("sparse"):
            # identification "only through their items" needs every item of every dimension to occur
            recs = [r for r in F.records(keys, True) if r[1] != 0.0]
            for k in keys:
                if k not in lay.get("omit", []) and {r[0][k] for r in recs} != set(F.POOL[k][2]):
                    return True
        idx = [k for k in lay.get("index", []) if k != wide and k not in lay.get("omit", [])]
        if len(idx) == 1 and isinstance(F.POOL[idx[0]][2][0], int):
            return True  # a single unnamed integer index level cannot be told from a default row index
    return False


def run_case(keys, lay):
    from flodym import FlodymArray

    case = dict(kind="layout", keys=keys, layout=lay)
    sparse = bool(lay.get("sparse"))
    recs = F.records(keys, sparse)
    if lay.get("inf") and len(recs) >= 2:  # two entries are infinite (values like any other: present, not NaN)
        recs[0] = (recs[0][0], float("inf"))
        recs[-1] = (recs[-1][0], float("-inf"))
    recs_in = [r for r in recs if not (sparse and r[1] == 0.0)]
    st, built = attempt(lambda: F.build_frame(keys, recs_in, lay))
    if st == "raised":
        raise RuntimeError(f"frame builder failed: {built}")
    df, info = built
    tags = dict(header=lay["header"], wide=lay["wide"] is not None, value_before_dim=info["value_before_dim"], medium=lay.get("medium", "memory"))
    desc = f"dims {[F.POOL[k][0] for k in keys]} layout {lay}"
    dims = F.make_dims(keys)
    df_before = df.copy(deep=True)
    st, got = attempt(lambda: FlodymArray.from_df(dims=dims, df=df, allow_missing_values=sparse))
    if st == "raised":
        tags["outcome"] = "refused"
        return "fail", dict(case=case, tags=tags, what=f"{desc}: from_df refused a valid layout: {got}", observed=df.head(6).to_string())
    want = F.array_of(keys, sparse).values
    if lay.get("inf") and len(recs) >= 2:
        want = want.copy()
        want.flat[0], want.flat[-1] = np.inf, -np.inf
    if tuple(got.values.shape) != tuple(want.shape):
        tags["outcome"] = "shape"
        return "fail", dict(case=case, tags=tags, what=f"{desc}: imported shape {got.values.shape}")
    if not np.array_equal(got.values, want):
        tags["outcome"] = "wrong-values"
        bad = np.argwhere(got.values != want)[0]
        return "fail", dict(case=case, tags=tags, what=f"{desc}: entry {tuple(int(i) for i in bad)} imported as {got.values[tuple(bad)]!r}, the row with these labels holds {want[tuple(bad)]!r}", observed=df.head(8).to_string())
    return "imported-faithfully", None


def _label(k, v):
    """label read back from a frame -> the dimension's item (typed dims: declared type; untyped: the item itself)"""
    name, letter, items, dtype = F.POOL[k]
    if dtype is not None:
        return dtype(v)
    for it in items:
        if type(it) is type(v) and it == v:
            return it
    for it in items:
        if it == v and not isinstance(it, str) and not isinstance(v, str):
            return it  # numpy integer vs int
    return v


def run_todf_case(keys, mode):
    from flodym import FlodymArray

    case = dict(kind="to_df", keys=keys, mode=mode)
    tags = dict(header="to_df", mode=str(mode[0]))
    sparse = mode[0] == "sparse"
    a = F.array_of(keys, sparse, mode[3] if len(mode) > 3 else "C")
    want = {tuple(r[0][k] for k in keys): r[1] for r in F.records(keys, sparse)}
    nanline = mode[4] if len(mode) > 4 else None
    if nanline:
        dk = mode[2] if nanline == "col" else [k for k in keys if k != mode[2]][0]
        idx = [slice(None)] * len(keys)
        idx[keys.index(dk)] = 0
        a.values[tuple(idx)] = np.nan
        want = {lab: (float("nan") if lab[keys.index(dk)] == F.POOL[dk][2][0] else v) for lab, v in want.items()}
    desc = f"dims {[F.POOL[k][0] for k in keys]} to_df mode {mode}"

    def fail(what, **kw):
        return "fail", dict(case=case, tags=tags, what=f"{desc}: {what}", **kw)

    kind, index, dtc = mode[:3]
    # prelude: the same export on a DECOY array whose dimensions have the same names, letters and lengths
    # but other items (an export must not remember labels from an earlier export)
    try:
        from flodym import Dimension, DimensionSet

        dd = DimensionSet(dim_list=[Dimension(name=F.POOL[k][0], letter=F.POOL[k][1], items=[(9000 + i) if isinstance(F.POOL[k][2][0], int) else f"decoy{i}" for i in range(len(F.POOL[k][2]))], dtype=F.POOL[k][3]) for k in keys])
        decoy = FlodymArray(dims=dd, values=np.arange(float(dd.total_size)).reshape(dd.shape) + 1.0)
        dkw = dict(index=index)
        if kind == "sparse":
            dkw["sparse"] = True
        if dtc is not None:
            dkw["dim_to_columns"] = F.POOL[dtc][0]
        decoy.to_df(**dkw)
    except Exception:
        pass
    kw = dict(index=index)
    if kind == "sparse":
        kw["sparse"] = True
    if dtc is not None:
        kw["dim_to_columns"] = F.POOL[dtc][0] if kind != "wide-letter" else F.POOL[dtc][1]
    st, df = attempt(lambda: a.to_df(**kw))
    if st == "raised":
        return fail(f"to_df raised {df}")
    # read the frame back by labels (row by row)
    flat = df.reset_index() if index else df
    names = [F.POOL[k][0] for k in keys]
    seen = {}
    try:
        if dtc is None:
            for _, row in flat.iterrows():
                lab = tuple(row[n] for n in names)
                lab = tuple(_label(k, v) for k, v in zip(keys, lab))
                if lab in seen:
                    return fail(f"label combination {lab} listed twice")
                seen[lab] = float(row["value"])
        else:
            rest = [k for k in keys if k != dtc]
            for _, row in flat.iterrows():
                for it in F.POOL[dtc][2]:
                    lab = []
                    for k in keys:
                        lab.append(it if k == dtc else _label(k, row[F.POOL[k][0]]))
                    lab = tuple(lab)
                    if lab in seen:
                        return fail(f"label combination {lab} listed twice")
                    seen[lab] = float(row[it])
    except Exception as e:
        return fail(f"frame cannot be read back by labels: {type(e).__name__}: {e}", observed=df.head(6).to_string())
    expect = {k: v for k, v in want.items() if not (sparse and v == 0.0)}
    if set(seen) != set(expect):
        return fail(f"listed label combinations differ: missing {sorted(set(expect) - set(seen))[:3]}, surplus {sorted(set(seen) - set(expect))[:3]}")
    for k, v in expect.items():
        if seen[k] != v and not (seen[k] != seen[k] and v != v):
            return fail(f"entry {k} exported as {seen[k]!r}, the array holds {v!r}")
    if nanline:
        return "exported (with a NaN line)", None
    # round trip
    st, back = attempt(lambda: FlodymArray.from_df(dims=F.make_dims(keys), df=df, allow_missing_values=sparse))
    if st == "raised":
        tags["outcome"] = "refused"
        return fail(f"from_df refused the frame produced by to_df: {back}")
    if not np.array_equal(back.values, a.values):
        return fail("to_df -> from_df does not return the identical array")
    return "exported-and-reimported", None


def run_dup_case(keys, header, i, j, where, allow_missing, text=False):
    """a duplicated label combination with a different value (+ another row dropped so that the row count
    still matches): there is no unique row for that entry, so from_df must not return"""
    from flodym import FlodymArray

    case = dict(kind="dup", keys=keys, header=header, i=i, j=j, where=where, allow_missing=allow_missing, text=text)
    recs = F.records(keys)
    dup = (dict(recs[i][0]), recs[i][1] + 1000.0)
    if text:  # the duplicate spells the labels of integer-typed dimensions as text ("2000"): the same labels once converted
        dup = ({k: (str(v) if F.POOL[k][3] is int else v) for k, v in dup[0].items()}, dup[1])
    rows = [r for k, r in enumerate(recs) if k != j]
    pos = {"end": len(rows), "start": 0, "adjacent": min(len(rows), (i if i < j else i - 1) + 1)}[where]
    rows.insert(pos, dup)
    df, info = F.build_frame(keys, rows, dict(wide=None, index=[], header=header))
    st, got = attempt(lambda: FlodymArray.from_df(dims=F.make_dims(keys), df=df, allow_missing_values=allow_missing))
    if st == "raised":
        return "ambiguous-rows-refused", None
    return "fail", dict(case=case, tags=dict(header=header, kind="duplicate-accepted", allow_missing=allow_missing), what=f"dims {[F.POOL[k][0] for k in keys]}: label combination {recs[i][0]} occurs in two rows with different values (row {j} dropped, so the row count matches) but from_df returned an array (entry = {float(got.values[tuple(F.POOL[k][2].index(recs[i][0][k]) for k in keys)])})")


def run_extra_case(keys, header, i, d, allow_missing, rowindex):
    """a row with an unknown item (in a dimension identified by name or letter) under allow_extra_values:
    every entry that is set must still come from the row carrying its labels"""
    from flodym import FlodymArray

    case = dict(kind="extra", keys=keys, header=header, i=i, d=d, allow_missing=allow_missing, rowindex=rowindex)
    recs = F.records(keys)
    lab = dict(recs[i][0])
    lab[d] = "zz" if isinstance(F.POOL[d][2][0], str) else 9999
    rows = list(recs)
    rows.insert((i * 7) % (len(rows) + 1), (lab, 4242.5))
    if allow_missing:
        rows = [r for k, r in enumerate(rows) if r[0] is lab or k != (i + 1) % len(rows)]
    df, info = F.build_frame(keys, rows, dict(wide=None, index=[], header=header, rowindex=rowindex))
    st, got = attempt(lambda: FlodymArray.from_df(dims=F.make_dims(keys), df=df, allow_missing_values=allow_missing, allow_extra_values=True))
    if st == "raised":
        return "fail", dict(case=case, tags=dict(header=header, kind="extra-refused", outcome="refused-extra"), what=f"dims {[F.POOL[k][0] for k in keys]}: a row with an unknown {F.POOL[d][0]} item under allow_extra_values was refused: {got}")
    want = np.zeros(tuple(len(F.POOL[k][2]) for k in keys))
    for l2, v in rows:
        if all(l2[k] in F.POOL[k][2] for k in keys):
            want[tuple(F.POOL[k][2].index(l2[k]) for k in keys)] = v
    if got.values.shape != want.shape or not np.array_equal(got.values, want):
        bad = np.argwhere(got.values != want)[0] if got.values.shape == want.shape else None
        return "fail", dict(case=case, tags=dict(header=header, kind="extra-wrong-values"), what=f"dims {[F.POOL[k][0] for k in keys]}, unknown {F.POOL[d][0]} item in an extra row (allow_extra_values, allow_missing_values={allow_missing}, row index {rowindex}): entry {None if bad is None else tuple(int(b) for b in bad)} is {None if bad is None else got.values[tuple(bad)]!r}, the row with these labels holds {None if bad is None else want[tuple(bad)]!r}")
    return "extras-ignored-correctly", None


def run_large_case(n, layout):
    """an array with more than 32767 entries (n x n), long layout, rows rotated"""
    from flodym import Dimension, DimensionSet, FlodymArray

    case = dict(kind="large", n=n, layout=layout)
    ds = DimensionSet(dim_list=[Dimension(name="Xdim", letter="x", items=list(range(1000, 1000 + n)), dtype=int), Dimension(name="Zdim", letter="z", items=[f"z{i}" for i in range(n)])])
    v = (np.arange(float(n * n)).reshape(n, n) * 0.5 + 1.0)
    a = FlodymArray(dims=ds, values=v)
    df = a.to_df(index=layout == "index")
    if layout == "wide":
        df = a.to_df(dim_to_columns="Zdim")
    df = df.iloc[list(range(7, len(df))) + list(range(7))]
    st, back = attempt(lambda: FlodymArray.from_df(dims=ds, df=df))
    if st == "raised":
        return "fail", dict(case=case, tags=dict(header="names", kind="large-refused"), what=f"{n}x{n} array ({n*n} entries), layout {layout}: from_df raised {back}")
    if not np.array_equal(back.values, v):
        bad = np.argwhere(back.values != v)
        return "fail", dict(case=case, tags=dict(header="names", kind="large-wrong"), what=f"{n}x{n} array ({n*n} entries), layout {layout}: {len(bad)} entries imported under wrong labels, first {tuple(int(i) for i in bad[0])}: {back.values[tuple(bad[0])]} instead of {v[tuple(bad[0])]}")
    return "imported-faithfully", None


def run_long_dim_case(layout):
    """a dimension with more than 32767 ITEMS (40000 x 2): export, rows rotated, import"""
    from flodym import Dimension, DimensionSet, FlodymArray

    case = dict(kind="long-dim", layout=layout)
    n = 40000
    ds = DimensionSet(dim_list=[Dimension(name="Product", letter="p", items=[f"p{i}" for i in range(n)]), Dimension(name="Region", letter="r", items=["a", "b"])])
    v = np.arange(float(2 * n)).reshape(n, 2) * 0.5 + 1.0
    a = FlodymArray(dims=ds, values=v)
    df = a.to_df(index=layout == "index") if layout != "wide" else a.to_df(dim_to_columns="Region")
    df = df.iloc[list(range(5, len(df))) + list(range(5))]
    st, back = attempt(lambda: FlodymArray.from_df(dims=ds, df=df))
    if st == "raised":
        return "fail", dict(case=case, tags=dict(header="names", kind="large-refused"), what=f"array over a dimension of {n} items, layout {layout}: from_df raised {back}")
    if not np.array_equal(back.values, v):
        bad = np.argwhere(back.values != v)
        return "fail", dict(case=case, tags=dict(header="names", kind="large-wrong"), what=f"array over a dimension of {n} items, layout {layout}: {len(bad)} entries imported under wrong labels, first {tuple(int(i) for i in bad[0])}: {back.values[tuple(bad[0])]} instead of {v[tuple(bad[0])]}")
    return "imported-faithfully", None


def run_value_items_case(header, index, wide):
    """the VALUES of the array are exactly the items of one of its (named) dimensions - they are values all the same"""
    from flodym import Dimension, DimensionSet, FlodymArray

    case = dict(kind="value-items", header=header, index=index, wide=wide)
    ds = DimensionSet(dim_list=[Dimension(name="Time", letter="t", items=[1, 2, 3], dtype=int), Dimension(name="Region", letter="r", items=["a", "b"])])
    v = np.array([[1.0, 2.0], [2.0, 3.0], [3.0, 1.0]])
    a = FlodymArray(dims=ds, values=v)
    df = a.to_df(index=index, dim_to_columns="Region" if wide else None)
    if header == "letters":
        df = df.rename(columns={"Time": "t", "Region": "r"}) if not index else df.rename_axis(index={"Time": "t", "Region": "r"})
    st, back = attempt(lambda: FlodymArray.from_df(dims=ds, df=df))
    what = f"array over Time [1, 2, 3] x Region whose values are 1, 2, 3 (header {header}, index {index}, wide {wide})"
    if st == "raised":
        return "fail", dict(case=case, tags=dict(header=header, kind="value-items-refused"), what=f"{what}: from_df refused the frame produced by to_df: {back}")
    if not np.array_equal(back.values, v):
        return "fail", dict(case=case, tags=dict(header=header, kind="value-items-wrong"), what=f"{what}: imported values differ")
    return "imported-faithfully", None


def todf_modes(keys):
    modes = [("long", True, None), ("long", False, None), ("sparse", True, None), ("sparse", False, None)]
    if len(keys) >= 2:
        for k in keys:
            modes += [("wide", True, k), ("wide", False, k), ("wide-letter", True, k)]
    out = [m + (prov,) for m in modes for prov in ("C", "F", "view")]
    # a complete line of the wide table holds NaN (no data for one item): every entry is still listed
    for m in modes:
        if m[0].startswith("wide"):
            out += [m + ("C", "col"), m + ("C", "row")]
    return out


def run_unit(u):
    keys, tier = u["keys"], u["tier"]
    if u["kind"] == "large":
        res = dict(evals=0, nontrivial=0, outcomes={}, fails=[], samples=[])
        jobs = [lambda layout=layout: run_large_case(182 if tier == "quick" else 260, layout) for layout in ("columns", "index", "wide")]
        jobs += [lambda layout=layout: run_long_dim_case(layout) for layout in ("columns", "index", "wide")]
        jobs += [lambda h=h, i=i, w=w: run_value_items_case(h, i, w) for h in ("names", "letters") for i in (False, True) for w in (False, True)]
        for job in jobs:
            oc, f = job()
            res["evals"] += 1
            res["nontrivial"] += 1
            res["outcomes"][oc] = res["outcomes"].get(oc, 0) + 1
            if f:
                res["fails"].append(f)
        return res
    n_entries = int(np.prod([len(F.POOL[k][2]) for k in keys]))
    res = dict(evals=0, nontrivial=0, outcomes={}, fails=[], samples=[])

    def rec(oc, f):
        res["evals"] += 1
        res["nontrivial"] += 1 if n_entries >= 2 else 0
        res["outcomes"][oc] = res["outcomes"].get(oc, 0) + 1
        if f:
            res["fails"].append(f)

    if u["kind"] == "to_df":
        for mode in todf_modes(keys):
            rec(*run_todf_case(keys, list(mode)))
        n = n_entries
        if 2 <= n <= 12:
            for header in ("names", "items-only"):
                for i in range(n):
                    for j in range(n):
                        if i == j:
                            continue
                        for where in ("end", "start", "adjacent"):
                            for am in (False, True):
                                rec(*run_dup_case(keys, header, i, j, where, am))
                                if header == "names" and any(F.POOL[k][3] is int for k in keys):
                                    rec(*run_dup_case(keys, header, i, j, where, am, True))
            for header in ("names", "letters"):
                for i in range(n):
                    for d in keys:
                        for am in (False, True):
                            for ri in ("default", "repeat"):
                                rec(*run_extra_case(keys, header, i, d, am, ri))
        return res
    for n, base in enumerate(base_layouts(keys)):
        for sec in secondary(tier, n, u.get("seed", 0)):
            lay = dict(base)
            lay.update(sec)
            if excluded(keys, lay):
                continue
            rec(*run_case(keys, lay))
    if keys == ["S", "T", "U"]:
        res["samples"].append(dict(keys=keys, layout=dict(wide="T", index=["S"], header="letters", omit=[], valname="value", rowperm="rev", colperm="rot1", medium="csv"), meaning="wide over Time, Sector in the index, Unit as a column named by its letter, rows reversed, columns rotated, through CSV text: every imported entry must equal the record with its labels"))
    return res


def replay(case):
    if case["kind"] == "layout":
        oc, f = run_case(case["keys"], case["layout"])
    elif case["kind"] == "large":
        oc, f = run_large_case(case["n"], case["layout"])
    elif case["kind"] == "long-dim":
        oc, f = run_long_dim_case(case["layout"])
    elif case["kind"] == "value-items":
        oc, f = run_value_items_case(case["header"], case["index"], case["wide"])
    elif case["kind"] == "extra":
        oc, f = run_extra_case(case["keys"], case["header"], case["i"], case["d"], case["allow_missing"], case["rowindex"])
    elif case["kind"] == "dup":
        oc, f = run_dup_case(case["keys"], case["header"], case["i"], case["j"], case["where"], case["allow_missing"], case.get("text", False))
    else:
        oc, f = run_todf_case(case["keys"], case["mode"])
    return [f] if f else []
