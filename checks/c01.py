"""C01 - arithmetic between arrays matches dimensions by label, never by axis position.

E1: every ordered pair of arrangements (storage orders of all subsets, 0-dimensional included) of
the dimension universe x length pattern x operator form x value assignment x operand provenance.
Oracle: the label-dict reference model (mc/refmodel.py), compared exactly wherever the value
alphabet makes the arithmetic exact.
"""

import operator

import numpy as np

from mc import observe, refmodel as R, spaces as S
from mc.util import attempt, short, digest


def digest_int(obj):
    return int(digest(obj)[:8], 16)


PROPERTY = "C01"
LEVEL = "exploration"
RULE = (
    "complete enumeration of (length pattern) x (ordered pair of arrangements of every subset of the "
    "dimension universe, 0-dim included) x (operator form: + - minimum maximum * / ** between arrays, "
    "the scalar forms x+s s+x x-s s-x x*s s*x x/s s/x x**s min/max with int, float and numpy scalars, "
    "unary - abs() .abs() .sign()) x (value assignment family) with rotating operand storage "
    "provenance (C, Fortran, strided view, transposed buffer); a case is non-trivial when an operand "
    "has a dimension with >= 2 items, so that matching by label is observable; every case is distinct "
    "by construction (no configuration is generated twice); for 5 of the assignment families every case is also run in history mode: decoy arrays of the same dims went through in-place abs / sign / cumsum and the same operator, the operator was applied to the operands once, and the operands were overwritten in place before the operator is applied again; for 2 families every case is also run in genesis mode: the operands are Parameter / Flow / StockArray instances or deepcopy / pickle / copy / model_copy / trivial cast / trivial slice results (rotating), over dimensions whose item labels collide with letters, names, each other, the empty string and integers; plus every ordered pair of arrangements of three large dimensions (12, 33, 5 items)"
)
ASSUMPTIONS = [
    "values range over finite separating alphabets (distinct powers of two, positional codes, "
    "prime products, a sign/order alphabet), not over all reals; an implementation that branches on "
    "numeric values outside these alphabets is not excluded",
    "bounds: 4 dimensions quick / 5 thorough (pairs where an operand has all 5), <= 3 items per dimension",
    "x/y and s/x are compared with 1e-14 relative tolerance unless the divisor is a power of two "
    "(flodym multiplies by the reciprocal); ** is compared with 1e-14 relative tolerance",
]

SCALARS = {"int2": 2, "float.5": 0.5, "np64_4": np.float64(4.0), "npint3": np.int64(3)}

# assignment families: name -> (x maker, y maker, applicable operator groups, (prov x, prov y))
ASSIGN = {
    "pow2": (S.val_pow2(0), S.val_pow2(1), {"add", "mulexact", "unary", "scalar"}, ("C", "C")),
    "base": (S.val_base(4, 1), S.val_base(5, 7), {"add", "mulexact", "pow", "unary", "scalar"}, ("F", "view")),
    "signed": (S.val_signed(0), S.val_signed(5), {"add", "unary", "scalarsigned"}, ("view", "transposed")),
    "primes": (S.val_primes(S.PRIMES_X), S.val_primes(S.PRIMES_Y), {"mulexact", "divtol"}, ("transposed", "F")),
    "halfpow": (S.val_primes(S.PRIMES_X), S.val_halfpow(2), {"mulexact", "divexact", "powtol"}, ("C", "view")),
    "signed2": (S.val_signed(3), S.val_signed(6), {"add", "unary"}, ("F", "C")),
    "base2": (S.val_base(7, 3), S.val_base(3, 1), {"add", "mulexact", "scalar"}, ("transposed", "transposed")),
    "intx": (S.val_base(4, 1), S.val_base(5, 7), {"add", "mulexact", "scalar", "unary"}, ("Cint", "C")),
    "inty": (S.val_base(3, 2), S.val_base(4, 1), {"add", "mulexact", "divtol"}, ("view", "Cint")),
    "tiny": (S.scaled(S.val_pow2(0), 2.0 ** -70), S.scaled(S.val_pow2(1), 2.0 ** -70), {"add", "unary", "scalartiny"}, ("C", "F")),
    "halfpow2": (S.val_halfpow(5), S.val_halfpow(0), {"mulexact", "divexact", "add"}, ("view", "F")),
    # NaN, +-inf, +-0.0 among ordinary values; and an all-zero x against such a y (0 * inf, 0 * nan are NaN)
    "special": (S.val_special(0), S.val_special(3), {"add", "mulexact", "unary"}, ("C", "F")),
    "zerox": (S.val_zero(), S.val_special(1), {"add", "mulexact"}, ("C", "C")),
    # narrow unsigned integers: the sums over the other operand's missing dimensions exceed the entries' type
    "u8x": (S.val_base(2, 60), S.val_base(5, 7), {"add", "scalarsub"}, ("Cu8", "C")),
    "u8y": (S.val_base(5, 7), S.val_base(2, 60), {"add"}, ("F", "Cu8")),
}
QUICK_ASSIGN = ("pow2", "signed", "primes", "halfpow", "base", "intx", "inty", "tiny", "special", "zerox", "u8x", "u8y")
TOL = 1e-14
HISTORY_ASSIGN = ("base", "primes", "halfpow", "signed", "intx")
HISTORY_ASSIGN_QUICK = ("halfpow", "intx")
GENESIS_ASSIGN = ("base", "primes")
INPLACE_ASSIGN = ("base", "intx", "inty", "halfpow")  # families under which the augmented-assignment forms are run


def nmin(a, b):
    return float("nan") if (a != a or b != b) else min(a, b)


def nmax(a, b):
    return float("nan") if (a != a or b != b) else max(a, b)


def nsign(v):
    return v if v != v else float((v > 0) - (v < 0))


def _inplace(sym):
    """the augmented-assignment form  z = x; z <op>= y; z  (falls back to the binary operator when the class
    defines no in-place method; either way the value bound afterwards is what is compared)"""
    import operator as _o

    f = {"+=": _o.iadd, "-=": _o.isub, "*=": _o.imul, "/=": _o.itruediv, "**=": _o.ipow}[sym]
    return f


def _ops():
    """operator forms: name -> (group, callable on (X, Y) flodym arrays, model function (mx, my))"""
    ops = {}
    ops["x+y"] = ("add", lambda X, Y: X + Y, lambda x, y: R.additive(x, y, operator.add), 0.0)
    ops["x-y"] = ("add", lambda X, Y: X - Y, lambda x, y: R.additive(x, y, operator.sub), 0.0)
    ops["x.minimum(y)"] = ("add", lambda X, Y: X.minimum(Y), lambda x, y: R.additive(x, y, nmin), 0.0)
    ops["x.maximum(y)"] = ("add", lambda X, Y: X.maximum(Y), lambda x, y: R.additive(x, y, nmax), 0.0)
    ops["x*y"] = ("mulexact", lambda X, Y: X * Y, lambda x, y: R.multiplicative(x, y, operator.mul), 0.0)
    ops["x/y exact"] = ("divexact", lambda X, Y: X / Y, lambda x, y: R.multiplicative(x, y, operator.truediv), 0.0)
    ops["x/y"] = ("divtol", lambda X, Y: X / Y, lambda x, y: R.multiplicative(x, y, operator.truediv), TOL)
    ops["x**y"] = ("pow", lambda X, Y: X ** Y, lambda x, y: R.power(x, y), TOL)
    ops["x**y frac"] = ("powtol", lambda X, Y: X ** Y, lambda x, y: R.power(x, y), TOL)
    for sn, s in SCALARS.items():
        fs = float(s)
        # number - x and x - number once more for narrow unsigned integer arrays (exact in any type)
        ops[f"{sn}-x (u8)"] = ("scalarsub", lambda X, Y, s=s: s - X, lambda x, y, fs=fs: R.elementwise(x, lambda v: fs - v), 0.0)
        ops[f"x+{sn} (u8)"] = ("scalarsub", lambda X, Y, s=s: X + s, lambda x, y, fs=fs: R.elementwise(x, lambda v: v + fs), 0.0)
        for group in ("scalar", "scalarsigned", "scalartiny"):
            g = {"scalar": "", "scalarsigned": " (signed)", "scalartiny": " (tiny)"}[group]
            if group == "scalartiny" and sn != "float.5":
                continue
            ops[f"x+{sn}{g}"] = (group, lambda X, Y, s=s: X + s, lambda x, y, fs=fs: R.elementwise(x, lambda v: v + fs), 0.0)
            ops[f"{sn}+x{g}"] = (group, lambda X, Y, s=s: s + X, lambda x, y, fs=fs: R.elementwise(x, lambda v: fs + v), 0.0)
            ops[f"x-{sn}{g}"] = (group, lambda X, Y, s=s: X - s, lambda x, y, fs=fs: R.elementwise(x, lambda v: v - fs), 0.0)
            ops[f"{sn}-x{g}"] = (group, lambda X, Y, s=s: s - X, lambda x, y, fs=fs: R.elementwise(x, lambda v: fs - v), 0.0)
            ops[f"x*{sn}{g}"] = (group, lambda X, Y, s=s: X * s, lambda x, y, fs=fs: R.elementwise(x, lambda v: v * fs), 0.0)
            ops[f"{sn}*x{g}"] = (group, lambda X, Y, s=s: s * X, lambda x, y, fs=fs: R.elementwise(x, lambda v: fs * v), 0.0)
            ops[f"x.minimum({sn}){g}"] = (group, lambda X, Y, s=s: X.minimum(s), lambda x, y, fs=fs: R.elementwise(x, lambda v: nmin(v, fs)), 0.0)
            ops[f"x.maximum({sn}){g}"] = (group, lambda X, Y, s=s: X.maximum(s), lambda x, y, fs=fs: R.elementwise(x, lambda v: nmax(v, fs)), 0.0)
        # division and power only where x has no zeros / negative bases
        ops[f"x/{sn}"] = ("scalar", lambda X, Y, s=s: X / s, lambda x, y, fs=fs: R.elementwise(x, lambda v: v / fs), TOL)
        ops[f"{sn}/x"] = ("scalar", lambda X, Y, s=s: s / X, lambda x, y, fs=fs: R.elementwise(x, lambda v: fs / v), TOL)
        ops[f"x**{sn}"] = ("scalar", lambda X, Y, s=s: X ** s, lambda x, y, fs=fs: R.elementwise(x, lambda v: v ** fs), TOL)
    # augmented assignment forms
    ops["x+=y"] = ("add", lambda X, Y: _inplace("+=")(X, Y), lambda x, y: R.additive(x, y, operator.add), 0.0)
    ops["x-=y"] = ("add", lambda X, Y: _inplace("-=")(X, Y), lambda x, y: R.additive(x, y, operator.sub), 0.0)
    ops["x*=y"] = ("mulexact", lambda X, Y: _inplace("*=")(X, Y), lambda x, y: R.multiplicative(x, y, operator.mul), 0.0)
    ops["x/=y exact"] = ("divexact", lambda X, Y: _inplace("/=")(X, Y), lambda x, y: R.multiplicative(x, y, operator.truediv), 0.0)
    ops["x/=y"] = ("divtol", lambda X, Y: _inplace("/=")(X, Y), lambda x, y: R.multiplicative(x, y, operator.truediv), TOL)
    ops["x**=y"] = ("pow", lambda X, Y: _inplace("**=")(X, Y), lambda x, y: R.power(x, y), TOL)
    for sn in ("int2", "float.5"):
        s_, fs_ = SCALARS[sn], float(SCALARS[sn])
        ops[f"x+={sn}"] = ("scalar", lambda X, Y, s=s_: _inplace("+=")(X, s), lambda x, y, fs=fs_: R.elementwise(x, lambda v: v + fs), 0.0)
        ops[f"x*={sn}"] = ("scalar", lambda X, Y, s=s_: _inplace("*=")(X, s), lambda x, y, fs=fs_: R.elementwise(x, lambda v: v * fs), 0.0)
        ops[f"x/={sn}"] = ("scalar", lambda X, Y, s=s_: _inplace("/=")(X, s), lambda x, y, fs=fs_: R.elementwise(x, lambda v: v / fs), TOL)
    ops["-x"] = ("unary", lambda X, Y: -X, lambda x, y: R.elementwise(x, operator.neg), 0.0)
    ops["abs(x)"] = ("unary", lambda X, Y: abs(X), lambda x, y: R.elementwise(x, abs), 0.0)
    ops["x.abs()"] = ("unary", lambda X, Y: X.abs(), lambda x, y: R.elementwise(x, abs), 0.0)
    ops["x.sign()"] = ("unary", lambda X, Y: X.sign(), lambda x, y: R.elementwise(x, nsign), 0.0)
    return ops


OPS = _ops()
Y_INDEPENDENT = {"scalar", "scalarsigned", "scalartiny", "scalarsub", "unary"}


def bounds(tier):
    return dict(
        letters=4 if tier == "quick" else 5,
        patterns=list(_patterns(tier)),
        assignments=list(QUICK_ASSIGN if tier == "quick" else ASSIGN),
        operator_forms=len(OPS),
    )


def _patterns(tier):
    return ("all2", "2323", "1213") if tier == "quick" else ("all2", "all3", "2323", "1213", "3122")


def units(tier, seed):
    """one work unit = (length pattern, x arrangement, chunk of y arrangements); units run in fresh processes"""
    assigns = QUICK_ASSIGN if tier == "quick" else tuple(ASSIGN)
    out = []
    arrs = ["".join(a) for a in S.arrangements(S.LETTERS[:4])]
    for pat in _patterns(tier):
        for lx in arrs:
            for i in range(0, len(arrs), 22):
                out.append(dict(pattern=pat, lx=lx, lys=arrs[i : i + 22], assigns=assigns))
    # large dimensions (12, 33 and 5 items): every ordered pair of arrangements of the subsets of {a, b, d}
    arrs3 = ["".join(a) for a in S.arrangements("abd")]
    for lx in arrs3:
        out.append(dict(pattern="big", lx=lx, lys=arrs3, assigns=("base", "halfpow2"), modes=("fresh",)))
    if tier == "thorough":  # five dimensions, every ordered pair of the 326 arrangements
        arrs5 = ["".join(a) for a in S.arrangements(S.LETTERS[:5])]
        for pat in ("all2", "2323"):
            for lx in arrs5:
                lys = [ly for ly in arrs5 if len(lx) == 5 or len(ly) == 5]
                for i in range(0, len(lys), 60):
                    out.append(dict(pattern=pat, lx=lx, lys=lys[i : i + 60], assigns=QUICK_ASSIGN[:4]))
    return out


def run_case(pattern, lx, ly, assign, opname, mode="fresh"):
    """returns (outcome class, failure dict or None).
    mode 'fresh': operands built, operator applied once.
    mode 'history': the same question asked of a process and of operands with a PAST - decoy arrays of
    the same dims went through in-place abs / sign / cumsum and through the same operator first, the
    operator was already applied to these very operands once, and the operands' values were then
    overwritten in place (values doubled: exact) before the operator is applied again."""
    items = S.items_for(pattern, family="tricky" if mode == "genesis" else "std")
    xmk, ymk, groups, (px, py) = ASSIGN[assign]
    group, impl, model, tol = OPS[opname]
    fx, fy = xmk(lx, items), ymk(ly, items)
    if group == "pow":
        fy0 = fy
        fy = lambda lab: fy0(lab) % 4  # small integer exponents
    X = S.flodym_array(lx, items, fx, px)
    Y = S.flodym_array(ly, items, fy, py)
    case = dict(pattern=pattern, lx=lx, ly=ly, assign=assign, op=opname, mode=mode)
    decoy_snap = None
    if mode == "genesis":
        # operands that are instances of the subclasses, or copies / pickle round trips / trivial casts of
        # the constructed array, over dimensions whose item labels collide with letters, names and each other
        h = digest_int((pattern, lx, ly, opname))
        gx, gy = S.GENESIS[h % len(S.GENESIS)], S.GENESIS[(h // 16) % len(S.GENESIS)]
        case["genesis"] = [gx, gy]
        st0, pair = attempt(lambda: (S.regenesis(X, gx), S.regenesis(Y, gy)))
        if st0 == "raised":
            return "fail", dict(case=case, tags=dict(op=opname, kind="genesis-raised"), what=f"building the operands as {gx} / {gy} raised {pair}")
        X, Y = pair
    if mode == "history":
        fz = S.val_base(3, 5)(lx, items)
        Z = S.flodym_array(lx, items, lambda lab: -fz(lab), "C")
        W = S.flodym_array(ly, items, S.val_halfpow(1)(ly, items), "C")

        def prelude():
            Z.abs(inplace=True)
            Z.sign(inplace=True)
            if lx:
                Z.cumsum(lx[0], inplace=True)
            try:
                impl(Z, W)
            except Exception:
                pass
            try:
                impl(X, Y)
            except Exception:
                pass

        st0, info0 = attempt(prelude)
        if st0 == "raised":
            return "fail", dict(case=case, tags=dict(op=opname, kind="prelude-raised"), what=f"in-place abs/sign/cumsum on an unrelated array raised {info0}")
        decoy_snap = (Z.values.copy(), W.values.copy())
        if group not in ("pow", "powtol"):
            scale = 2 if px != "Cint" and py != "Cint" else 2
            fx1, fy1 = fx, fy
            fx = lambda lab: fx1(lab) * 2
            fy = lambda lab: fy1(lab) * 2
            # overwrite the operands in place, through two different public routes
            X[...] = S.ndarray_for(lx, items, fx, "F").astype(X.values.dtype)
            Y.values[...] = S.ndarray_for(ly, items, fy, "C")
    mx, my = R.build(lx, items, fx), R.build(ly, items, fy)
    want = model(mx, my)
    xb, yb = X.values.copy(), Y.values.copy()
    with np.errstate(all="ignore"):
        status, got = attempt(lambda: impl(X, Y))
    inplace_form = "=" in opname.split("y")[0].split("int")[0].split("float")[0]
    if status == "ok" and not ((inplace_form or np.array_equal(X.values, xb, equal_nan=True)) and np.array_equal(Y.values, yb, equal_nan=True)):
        return "fail", dict(case=case, tags=dict(op=opname, kind="operand-changed"), what=f"{opname} with x dims {lx!r}, y dims {ly!r}, values {assign}: the operator changed the entries of an operand (the result is defined in terms of the operands' entries)")
    if decoy_snap is not None and status == "ok":
        if not (np.array_equal(Z.values, decoy_snap[0]) and np.array_equal(W.values, decoy_snap[1])):
            return "fail", dict(case=case, tags=dict(op=opname, kind="unrelated-array-changed"), what=f"{opname} on x, y changed an unrelated array that had earlier been modified in place")
    if want is None:
        if status == "raised":
            return "refused-as-required", None
        return "fail", dict(case=case, tags=dict(op=opname, kind="must-raise"), what=f"{opname} with x dims {lx!r}, y dims {ly!r} must raise (y has a dimension x lacks) but returned")
    if status == "raised":
        return "fail", dict(case=case, tags=dict(op=opname, kind="raised"), what=f"{opname} with x dims {lx!r}, y dims {ly!r} raised {got}", observed=got)
    st2, obs = attempt(lambda: observe.arr(got))
    if st2 == "raised":
        return "fail", dict(case=case, tags=dict(op=opname, kind="malformed"), what=f"{opname}: result is malformed: {obs}")
    d = want.diff(obs, tol)
    if d is None:
        for l in obs.letters:
            if obs.names.get(l) != S.NAMES[l]:
                d = f"dimension {l!r} carries name {obs.names.get(l)!r}"
    if d is not None:
        kind = "dims" if "letters" in d or "items" in d else "values"
        return "fail", dict(
            case=case,
            tags=dict(op=opname, kind=kind),
            what=f"{opname} with x dims {lx!r}, y dims {ly!r}, lengths {pattern}, values {assign}: {d}",
            observed=short(obs.data),
            expected=short(want.data),
        )
    return "agrees-with-model", None


def run_unit(u):
    pattern, lx = u["pattern"], tuple(u["lx"])
    items = S.items_for(pattern)
    res = dict(evals=0, nontrivial=0, outcomes={}, fails=[], samples=[])
    for ly in u["lys"]:
        ly = tuple(ly)
        nontriv_pair = any(len(items[l]) >= 2 for l in lx + ly)
        for assign in u["assigns"]:
            groups = ASSIGN[assign][2]
            for opname, (group, _, _, _) in OPS.items():
                if group not in groups:
                    continue
                if group in Y_INDEPENDENT and ly != ():
                    continue  # scalar / unary forms do not involve y: run them once per x arrangement
                inplace_form = "=" in opname.split("y")[0].split("int")[0].split("float")[0]
                if inplace_form and assign not in INPLACE_ASSIGN:
                    continue
                for mode in u.get("modes", ("fresh", "history", "genesis")) if not inplace_form else ("fresh",):
                    if mode == "genesis" and (assign not in GENESIS_ASSIGN or pattern == "big"):
                        continue
                    if mode == "history" and assign not in (HISTORY_ASSIGN if len(u["assigns"]) > len(QUICK_ASSIGN) else HISTORY_ASSIGN_QUICK):
                        continue
                    oc, f = run_case(pattern, "".join(lx), "".join(ly), assign, opname, mode)
                    res["evals"] += 1
                    nt = nontriv_pair if group not in Y_INDEPENDENT else any(len(items[l]) >= 2 for l in lx)
                    res["nontrivial"] += 1 if nt else 0
                    key = oc + {"fresh": "", "history": " (with history)", "genesis": " (subclass / copied operands, colliding labels)"}[mode]
                    res["outcomes"][key] = res["outcomes"].get(key, 0) + 1
                    if f and len(res["fails"]) < 25:
                        res["fails"].append(f)
        if lx == ("b", "a") and ly == ("a", "c") and pattern == "all2":
            res["samples"].append(dict(pattern=pattern, x_dims=lx, y_dims=ly, assignment=u["assigns"][0], op="x+y", meaning="result over ('a',) = marginal of x over b + marginal of y over c"))
    return res


def replay(case):
    oc, f = run_case(case["pattern"], case["lx"], case["ly"], case["assign"], case["op"], case.get("mode", "fresh"))
    return [f] if f else []

ENGINE = "E1-enumeration"
TECHNIQUE = "bounded exhaustive enumeration of operand configurations on the real code vs. a label-dict reference model"
LEVEL_TEXT = (
    "Every ordered pair of storage orders of every dimension subset (<= 4 dims quick, 5 thorough), every "
    "operator form and a family of separating value assignments is executed on the real FlodymArray code "
    "and compared entry by entry, by label, with a reference model that has no notion of axis position. "
    "Exhaustive over configurations within the bound; values come from finite separating alphabets."
)
LEVEL_NOTE = (
    "Trusted: CPython float arithmetic, numpy basic integer indexing used to read results, the ~200-line "
    "reference model. Not covered: real values outside the alphabets, more than 5 dimensions / 3 items."
)
