"""C16 - dynamic stock models are causal, linear and independent across labels.

E1 (metamorphic): for every DSM class/solver x grid x lifetime parametrisation (per-label parameters
that differ between labels) x extra dims: EVERY unit impulse of the driver (a basis of the driver
space), all superpositions e_i + 2 e_j of basis pairs, scaling by -3, EVERY truncation point (driver
altered after step k leaves results up to k unchanged), EVERY label slice computed alone with its
own parameters, calendar shifts, and the impulse response against the closed-form survival column.
"""

import itertools

from mc import dsm, dsm_impl
from mc.util import attempt
from checks import c03

PROPERTY = "C16"
LEVEL = "exploration"
ENGINE = "E1-enumeration"
TECHNIQUE = "bounded exhaustive enumeration of DSM configurations with exhaustive per-configuration basis / truncation / slice relations between runs of the real code"
RULE = (
    "complete enumeration of (3 class/solver combinations) x (time grids, steps in {1,2,5}, 3-5 items; quick: 13 "
    "representatives) x (13 lifetime parametrisations) x (extra dims none / p / p x q) x (per-label-and-cohort "
    "parameters) x per configuration: every unit impulse (time x label), every ordered pair superposition "
    "e_i + 2 e_j over a generating subset, scaling by -3, every truncation point with two different continuations, "
    "every label computed alone, calendar shifts -1990 / +7 / +100000, impulse response vs closed-form survival "
    "column x interval length; superposition and scaling also with ONE lifetime model object shared by all stocks of the relation; per-cohort parameters alternating between every other (lifetime, grid) and a non-monotone pattern whose first and last cohort coincide; stock-driven models with one degenerate label (zero survival of the own interval) next to healthy ones, every healthy label vs computed alone. Non-trivial = relation evaluated on a well-conditioned configuration. Distinct by "
    "construction."
    " Also: one lifetime model object shared by all stocks of a relation, relations against stocks with a past, non-monotone per-cohort parameters, a degenerate neighbour label, sub-annual grids."
)
ASSUMPTIONS = [
    "relations compared with 1e-10 relative tolerance (measured <= 1e-15); stock-driven kept when first-interval survival >= 0.05",
    "linearity is checked on the impulse basis, all pair superpositions of a generating subset and one scaling, not on all real combinations",
]
LEVEL_TEXT = (
    "For every bounded configuration the full impulse basis of the driver space is run through the real model "
    "and the causality, superposition, scaling, label-independence and shift-invariance relations are evaluated "
    "entry by entry on stock, inflow, outflow and both cohort tables."
)
LEVEL_NOTE = "Relations between implementation runs; closed-form survival only for the impulse response. Finite alphabets, <= 5 time steps, <= 4 labels."
TOL = 1e-10
NAMES = ("stock", "inflow", "outflow", "sbc", "obc")
EXTRAS = ([], [("p", 2)], [("p", 2), ("q", 2)])
SHAPES = {0: ("t", "scalar"), 1: ("pt", "p"), 2: ("tqp", "qt")}  # 2: a full-dimensional parameter stored in permuted order
# alternative parametrisations ("T": every other cohort short-lived, so with an odd number of steps the first and
# the last cohort have the same parameters while the ones between differ); used for every other (lifetime, grid)
SHAPES_ALT = {0: ("T", "scalar"), 1: ("pT", "scalar"), 2: ("tqp", "qt")}


def bounds(tier):
    return c03.bounds(tier)


def units(tier, seed):
    out = [dict(u, seed=seed) for u in c03.units(tier, seed)]
    gs = dsm.QUICK_GRIDS if tier == "quick" else dsm.grids()
    for k in range(0, len(gs), 8):
        out.append(dict(degenerate=True, grids=[list(g) for g in gs[k : k + 8]], tier=tier, seed=seed))
    return out


def run_degenerate(grid, at, nlab, deg):
    """stock-driven model (manual solver) over labels of which ONE is degenerate - nothing of a cohort of that
    label survives its own interval, so no inflow can be inferred for it (the implementation returns inf / nan
    there) - the other labels must still evolve exactly as if each were computed alone"""
    import numpy as np

    import flodym

    grid = tuple(grid)
    n = len(grid)
    case = dict(degenerate=True, grid=list(grid), at=at, nlab=nlab, deg=deg)
    dt = dsm.dts(grid)
    means = [(0.3 * min(dt)) if j == deg else ((1.7 + 0.9 * j) * max(dt) + 0.0137) for j in range(nlab)]
    extra = [("p", nlab)]
    stock = {(t, (j,)): float((t + 1) * (2 + j) + (t % 2)) for t in range(n) for j in range(nlab)}

    def build(ex, mean_value, drv):
        dims = dsm_impl.make_dims(grid, ex)
        if ex:
            mean = flodym.Parameter(dims=dims[("p",)], values=np.array(mean_value))
        else:
            mean = mean_value
        lm = flodym.FixedLifetime(dims=dims, time_letter="t", mean=mean, inflow_at=at)
        sa = flodym.StockArray(dims=dims)
        dsm_impl.fill(sa, drv, ex)
        s = flodym.StockDrivenDSM(dims=dims, lifetime_model=lm, stock=sa, solver="manual")
        with np.errstate(all="ignore"):
            s.compute()
        return dict(
            stock=dsm_impl.series_from_nd(s.stock.values, ex),
            inflow=dsm_impl.series_from_nd(s.inflow.values, ex),
            outflow=dsm_impl.series_from_nd(s.outflow.values, ex),
            sbc=dsm_impl.table_from_nd(s.get_stock_by_cohort(), ex),
            obc=dsm_impl.table_from_nd(s.get_outflow_by_cohort(), ex),
        )

    def go():
        full = build(extra, means, stock)
        for j in range(nlab):
            if j == deg:
                continue
            alone = build([], means[j], {(t, ()): stock[(t, (j,))] for t in range(n)})
            scale = max(dsm_impl.scale_of(alone, grid), 1.0)
            for nm in NAMES:
                for key, v in alone[nm].items():
                    w = full[nm][key[:-1] + ((j,),)]
                    if not abs(v - w) <= TOL * scale:
                        return f"label p{j+1} (mean {means[j]}) computed alone gives {nm}{key} = {v!r}, next to the degenerate label p{deg+1} (mean {means[deg]}: nothing survives its own interval) it gives {w!r}"
        return None

    st, d = attempt(go)
    tags = dict(cls="stock-manual", rel="degenerate-neighbour")
    if st == "raised":
        return "fail", dict(case=case, tags=tags, what=f"stock-driven DSM (manual) grid {list(grid)} inflow_at {at}, {nlab} labels of which p{deg+1} is degenerate: raised {d}")
    if d:
        return "fail", dict(case=case, tags=tags, what=f"stock-driven DSM (manual) grid {list(grid)} inflow_at {at}: {d}")
    return "relation-holds (degenerate neighbour label)", None


def lincomb(a, ca, b=None, cb=0.0):
    return {k: ca * v + (cb * b[k] if b is not None else 0.0) for k, v in a.items()}


def diff(a, b, scale, upto=None):
    for name in NAMES:
        for k, v in a[name].items():
            if upto is not None and k[0] > upto:
                continue
            if not abs(v - b[name][k]) <= TOL * scale:
                return f"{name}{k}: {v!r} vs {b[name][k]!r}"
    return None


def run_case(kind, grid, li, quad, ei, rel):
    lt = dsm.LT[li]
    extra = [tuple(e) for e in EXTRAS[ei]]
    grid = tuple(grid)
    n = len(grid)
    labs = dsm_impl.labels(extra)
    shapes = c03.shapes_dict(lt, (SHAPES if (li + n) % 2 else SHAPES_ALT)[ei])
    case = dict(kind=kind, grid=list(grid), lt=li, quad=list(quad), ei=ei, rel=rel)
    tags0 = dict(cls=kind, grid=dsm.grid_kind(grid), dist=lt[0], rel=rel[0])

    def fail(what):
        return "fail", dict(case=case, tags=tags0, what=f"{kind} DSM, {lt[0]}{lt[1]} shapes {shapes}, grid {list(grid)} extra {extra} quad {quad}, relation {rel}: {what}")

    sf_m, _ = dsm.sf_table(grid, lt[0], dsm_impl.prm_fn(lt[1], shapes, extra), quad[0], quad[1], labs)
    if kind.startswith("stock") and any(sf_m[(c, c, lab)] is None or sf_m[(c, c, lab)] < 0.05 for c in range(n) for lab in labs):
        return "skipped-ill-conditioned", None

    shared = {}

    def run(d, g=grid, ex=extra, sh=shapes, ltx=lt):
        if rel[0].endswith("-recomputed"):
            # all runs of the relation but the first are made with a stock (and lifetime model) that has a past: computed
            # before with other parameters and another driver, its cohort tables read, then only part of the parameters
            # changed, then the present ones set
            shared["n"] = shared.get("n", 0) + 1
            return dsm_impl.run_stock(kind, g, ltx, quad, ex, sh, d, recompute="first-only" if shared["n"] > 1 else False)
        if rel[0].endswith("-shared"):
            # all stocks of this relation hold ONE lifetime model object (as in a scenario loop that builds the
            # lifetime model once and hands it to every stock)
            out = dsm_impl.run_stock(kind, g, ltx, quad, ex, sh, d, lm=shared.get("lm"))
            shared["lm"] = out["lm"]
            return out
        return dsm_impl.run_stock(kind, g, ltx, quad, ex, sh, d)

    def imp(t, li_):
        return dsm_impl.driver_series(f"imp:{t}:{li_}", n, extra)

    def go():
        r = rel[0].replace("-shared", "").replace("-recomputed", "")
        if r == "impulse":
            t0, l0 = rel[1], rel[2]
            res = run(imp(t0, l0))
            dt = dsm.dts(grid)
            if kind == "inflow":
                for t in range(n):
                    for lj, lab in enumerate(labs):
                        s = sf_m[(t, t0, lab)]
                        want = (s * dt[t0] if (lj == l0 and t >= t0) else 0.0) if s is not None else None
                        if want is not None and not abs(res["stock"][(t, lab)] - want) <= TOL:
                            return f"stock response at t={t}, label {lab} to a unit inflow rate in cohort {t0}, label {labs[l0]} is {res['stock'][(t, lab)]!r}, survival column x interval length gives {want!r}"
            # cross-talk: other labels must stay exactly zero
            for name in NAMES:
                for k, v in res[name].items():
                    if k[-1] != labs[l0] and v != 0.0:
                        return f"driver impulse at label {labs[l0]} produced {name}{k} = {v!r} at another label"
            # causality on the basis: nothing before t0
            for name in NAMES:
                for k, v in res[name].items():
                    if k[0] < t0 and v != 0.0:
                        return f"impulse at step {t0} produced {name}{k} = {v!r} at an earlier step"
            return None
        if r == "superpose":
            (t1, l1), (t2, l2) = rel[1], rel[2]
            a, b = run(imp(t1, l1)), run(imp(t2, l2))
            c = run(lincomb(imp(t1, l1), 1.0, imp(t2, l2), 2.0))
            scale = max(dsm_impl.scale_of(a, grid), dsm_impl.scale_of(b, grid), dsm_impl.scale_of(c, grid))
            if not scale < 1e12:
                return "skip"
            want = {nm: lincomb(a[nm], 1.0, b[nm], 2.0) for nm in NAMES}
            return diff(c, want, scale)
        if r == "scale":
            fac = float(rel[1]) if len(rel) > 1 else -3.0
            d = dsm_impl.driver_series("pos" if kind == "inflow" else "hump", n, extra)
            a, c = run(d), run(lincomb(d, fac))
            if not dsm_impl.scale_of(a, grid) < 1e12:
                return "skip"
            # compare at the magnitude of the SCALED run (a tolerance at the magnitude of the larger run
            # would hide a result that is simply zero)
            return diff(c, {nm: lincomb(a[nm], fac) for nm in NAMES}, dsm_impl.scale_of({nm: lincomb(a[nm], fac) for nm in ("stock", "inflow", "outflow")}, grid))
        if r == "truncate":
            k = rel[1]
            d = dsm_impl.driver_series("pos" if kind == "inflow" else "hump", n, extra)
            a = run(d)
            for alt in ("plus", "zero", "nan", "inf"):
                # (later driver values larger, zero, missing = NaN, infinite)
                if alt in ("nan", "inf") and kind == "stock-lapack":
                    continue  # scipy's triangular solver refuses non-finite right-hand sides outright
                later = {"plus": None, "zero": 0.0, "nan": float("nan"), "inf": float("inf")}[alt]
                d2 = {key: (v if key[0] <= k else (v * 2.0 + 5.0 if alt == "plus" else later)) for key, v in d.items()}
                import numpy as _np

                with _np.errstate(all="ignore"):
                    b = run(d2)
                scale = max(dsm_impl.scale_of(a, grid), dsm_impl.scale_of(b, grid)) if alt in ("plus", "zero") else dsm_impl.scale_of(a, grid)
                if not scale < 1e12:
                    continue
                dd = diff(a, b, scale * 1e-5, upto=k)  # results up to k must be (numerically) identical
                if dd:
                    return f"results up to step {k} depend on driver values after step {k} ({alt}): {dd}"
            return None
        if r == "slice":
            l0 = rel[1]
            d = dsm_impl.driver_series("pos" if kind == "inflow" else "hump", n, extra)
            full = run(d)
            lab = labs[l0]
            base1 = {nm: dsm.param_value(lt[1][nm], nm, 0, lab, [p for p in dsm_impl.varies_of(shapes.get(nm, "scalar"), extra) if p not in (-1, -2)]) for nm in lt[1]}
            sh1 = {nm: ("t" if "t" in shapes.get(nm, "scalar") else ("T" if "T" in shapes.get(nm, "scalar") else "scalar")) for nm in lt[1]}
            d1 = {(t, ()): d[(t, lab)] for t in range(n)}
            alone = dsm_impl.run_stock(kind, grid, (lt[0], base1), quad, [], sh1, d1)
            scale = max(dsm_impl.scale_of(full, grid), 1.0)
            for nm in NAMES:
                for key, v in alone[nm].items():
                    kf = key[:-1] + (lab,)
                    if not abs(v - full[nm][kf]) <= TOL * scale:
                        return f"label {lab} computed alone gives {nm}{key} = {v!r}, inside the multi-label model {full[nm][kf]!r}"
            return None
        if r == "inverse-impulse":
            # stock-driven: prescribing the survival column of cohort c times its interval length must
            # return a unit inflow rate in cohort c (and nothing else)
            t0, l0 = rel[1], rel[2]
            dt = dsm.dts(grid)
            if any(sf_m[(t, t0, labs[l0])] is None for t in range(n)):
                return "skip"
            d = {(t, lab): (sf_m[(t, t0, lab)] * dt[t0] if (lab == labs[l0] and t >= t0) else 0.0) for t in range(n) for lab in labs}
            res = run(d)
            for (t, lab), v in res["inflow"].items():
                want = 1.0 if (t == t0 and lab == labs[l0]) else 0.0
                if not abs(v - want) <= 1e-9:
                    return f"prescribing survival column {t0} x interval length for label {labs[l0]} gives inflow{(t, lab)} = {v!r}, a unit impulse in cohort {t0} would give {want}"
            return None
        if r == "int-driver":
            # whole-number drivers held in an integer array give the results of the same numbers as floats
            d = {k: float(round(v)) * 2.0 for k, v in dsm_impl.driver_series("pos" if kind == "inflow" else "hump", n, extra).items()}
            a = run(d)
            b = dsm_impl.run_stock(kind, grid, lt, quad, extra, shapes, d, int_dtype=True)
            return diff(a, b, dsm_impl.scale_of(a, grid))
        if r == "shift":
            d = dsm_impl.driver_series("pos" if kind == "inflow" else "hump", n, extra)
            a = run(d)
            g2 = tuple(x + rel[1] for x in grid)
            b = run(d, g=g2)
            # ages are differences of calendar values: shifting the calendar by s costs about s x 1e-16 in every age,
            # so the comparison is relaxed in proportion to the shift (1e-12 relative for small shifts, 1e-10 for 100000; a dependence on the calendar origin would be many orders larger)
            return diff(a, b, dsm_impl.scale_of(a, grid) * max(1e-2, abs(rel[1]) * 1e-5))
        raise ValueError(r)

    st, d = attempt(go)
    if st == "raised":
        return fail(f"raised {d}")
    if d == "skip":
        return "skipped-ill-conditioned", None
    if d:
        return fail(d)
    return "relation-holds", None


def relations(n, nlab, tier):
    rels = []
    for t in range(n):
        for l in range(nlab):
            rels.append(("impulse", t, l))
    basis = [(t, l) for t in range(n) for l in range(nlab)]
    gen = basis if tier == "thorough" or len(basis) <= 5 else [b for k, b in enumerate(basis) if k % 3 != 1]
    for i, j in itertools.permutations(range(len(gen)), 2):
        if (tier == "thorough" and (i + j) % 2 == 0) or (i + 2 * j) % 3 == 0:
            rels.append(("superpose", list(gen[i]), list(gen[j])))
    rels.append(("int-driver",))
    rels.append(("superpose-shared", list(basis[0]), list(basis[-1])))
    rels.append(("superpose-shared", list(basis[-1]), list(basis[len(basis) // 2])))
    rels.append(("scale-shared", -3.0))
    rels.append(("scale-recomputed", -3.0))
    rels.append(("superpose-recomputed", list(basis[0]), list(basis[-1])))
    for t in range(n):
        rels.append(("inverse-impulse", t, (t * 3) % nlab))
    rels.append(("scale", -3.0))
    rels.append(("scale", 2.0 ** -40))
    rels.append(("scale", 2.0 ** 30))
    for k in range(n - 1):
        rels.append(("truncate", k))
    if nlab > 1:
        for l in range(nlab):
            rels.append(("slice", l))
    for s in (-1990, 7, 100000):
        rels.append(("shift", s))
    return rels


def run_unit(u):
    tier = u["tier"]
    if u.get("degenerate"):
        res = dict(evals=0, nontrivial=0, outcomes={}, fails=[], samples=[])
        for grid in u["grids"]:
            for at in ("middle", "start"):
                for nlab in (2, 3):
                    for deg in range(nlab):
                        oc, f = run_degenerate(grid, at, nlab, deg)
                        res["evals"] += 1
                        res["nontrivial"] += 1
                        res["outcomes"][oc] = res["outcomes"].get(oc, 0) + 1
                        if f:
                            res["fails"].append(f)
        return res
    grid, li = u["grid"], u["lt"]
    n = len(grid)
    res = dict(evals=0, nontrivial=0, outcomes={}, fails=[], samples=[])
    quads = [("middle", 1), ("end", 1), ("middle", 3), ("start", 1)] if tier == "quick" else [("start", 1), ("middle", 1), ("end", 1), ("middle", 2), ("middle", 5), ("end", 2), ("start", 3)]
    for kind in dsm_impl.KINDS:
        for ei in range(len(EXTRAS)):
            nlab = len(dsm_impl.labels(EXTRAS[ei]))
            for qi, quad in enumerate(quads):
                if tier == "quick" and (qi + ei + li + u.get("seed", 0)) % 3 != 0 and not (qi == 3 and (ei + li) % 2 == 0):
                    continue
                if tier == "thorough" and ei == 2 and qi % 3 != 0:
                    continue
                for rel in relations(n, nlab, tier):
                    if rel[0] == "inverse-impulse" and kind == "inflow":
                        continue
                    oc, f = run_case(kind, grid, li, quad, ei, list(rel))
                    res["evals"] += 1
                    res["nontrivial"] += 0 if oc.startswith("skipped") else 1
                    res["outcomes"][oc] = res["outcomes"].get(oc, 0) + 1
                    if f:
                        res["fails"].append(f)
    if li == 12 and grid == [2000, 2001, 2003]:
        res["samples"].append(dict(kind="stock-manual", grid=grid, lifetime=list(dsm.LT[12]), extra=[["p", 2]], relation=["superpose", [0, 1], [2, 0]], meaning="R(e_(t0,p2) + 2 e_(t2,p1)) == R(e_(t0,p2)) + 2 R(e_(t2,p1)) for stock, inflow, outflow and both cohort tables"))
    return res


def replay(case):
    if case.get("degenerate"):
        oc, f = run_degenerate(case["grid"], case["at"], case["nlab"], case["deg"])
        return [f] if f else []
    oc, f = run_case(case["kind"], case["grid"], case["lt"], tuple(case["quad"]), case["ei"], case["rel"])
    return [f] if f else []
