"""C15 - operations never modify their inputs, and results are independent objects.

E2: breadth-first search (depth 2-3) over a catalogue of every public non-in-place operation, so
that results of one operation (views, strided arrays, 0-dimensional arrays, arrays with a
single-item dimension) are fed to the next.  For every call: deep snapshot (values bytes, dims
signature, names) of every input before and after; for results of copy, arithmetic, cast_to,
full_like, reductions and reads a write-through probe in both directions and an in-place edit of the
dimension set in both directions; for t[key] = ndarray a scribble on the ndarray afterwards.
"""

import os
import tempfile

import numpy as np
import pandas as pd

from mc import bfs, spaces as S
from mc.util import attempt, digest

PROPERTY = "C15"
LEVEL = "model_checking"
ENGINE = "E2-bfs"
TECHNIQUE = "explicit-state BFS over a catalogue of public operations with snapshot comparison of all inputs and two-way write-through probes on every returned array"
RULE = (
    "BFS over histories on five array registers ((a,b,c); (c,a); (b); 0-dimensional; (d,a) with single-item d) "
    "over a catalogue of ~110 operations: every binary operator for several register pairs and with numbers "
    "(also reflected), unary operators, sum_to / sum_over / cumsum / get_shares_over, cast_to (same dims, "
    "permuted, adding single-item and multi-item dims), reads with every key form, copy, full_like, constructors, "
    "to_df (3 layouts), from_df (index / letter-named columns / integer values / omitted single-item dimension), "
    "flodym_array_stack, split, building stocks, lifetime models and MFA systems from existing arrays, dict / "
    "pickle / CSV export, and t[key] = ndarray. After every call: every input unchanged (values, dims, name; "
    "DataFrames and ndarrays too); on returned arrays: writing into result.values leaves every register "
    "unchanged and vice versa, editing result.dims in place leaves every register's dims unchanged and vice "
    "versa. State key = per register (dims signature, dtype, strides class, value bytes). Non-trivial = "
    "operation executed with probes."
    " Also: full_like with an array fill value, drivers unchanged by compute (both solvers, time-only dims), arrays built from fresh set-operation results, raw ndarray lifetime parameters replaced later."
)
ASSUMPTIONS = [
    "depth bound 2 (quick) / 3 (thorough)",
    "independence of values is demanded for copy, arithmetic, cast_to, full_like and slice reads incl. split (as listed by the property); reductions (sum_to / sum_over / cumsum / shares) are probed in the same way since fix 27 (sum_to over all dims used to return a view of its source); for constructors, stack and import only the inputs-unchanged clause and the independence of the dimension set are checked",
    "editing a Dimension's item list in place is not an edit of the dimension SET and is not probed",
]
LEVEL_TEXT = (
    "Every public non-in-place operation is executed in every reachable register state up to the depth bound; all "
    "inputs are compared bit by bit before and after, and every returned array is probed for shared memory and "
    "shared dimension-set storage in both directions."
)
LEVEL_NOTE = "Exact snapshots (bytes). Operations outside the catalogue and deeper histories are not covered."

ITEMS = dict(S.items_for("2323"))
ITEMS["d"] = ("d1",)
ITEMS["e"] = ("e1", "e2")


def DS(letters):
    return S.make_dimset(tuple(letters), ITEMS)


def vals(letters, k=0):
    sh = tuple(len(ITEMS[l]) for l in letters)
    return np.array(np.arange(int(np.prod(sh)) if sh else 1, dtype=float).reshape(sh) + 1.0 + 10 * k)


class St:
    pass


def build_state():
    from flodym import FlodymArray

    st = St()
    st.r = [
        FlodymArray(dims=DS("abc"), values=vals("abc"), name="r0"),
        FlodymArray(dims=DS("ca"), values=vals("ca", 1), name="r1"),
        FlodymArray(dims=DS("b"), values=vals("b", 2), name="r2"),
        FlodymArray(dims=DS(""), values=np.array(4.0), name="r3"),
        FlodymArray(dims=DS("da"), values=vals("da", 3), name="r4"),
    ]
    return st


def sig(a):
    return ([(d.letter, d.name, tuple(d.items)) for d in a.dims], a.name, (a.values.shape, str(a.values.dtype), a.values.tobytes()))


def snap(st):
    return [sig(a) for a in st.r]


def make_ops():
    ops = []
    A = ops.append
    for x, y in ((0, 1), (1, 0), (0, 2), (2, 0), (1, 4), (4, 3), (3, 0), (3, 3), (0, 0)):
        for o in ("+", "-", "*", "/", "min", "max"):
            A(dict(op="bin", x=x, y=y, o=o, dest=2 if x != 2 and y != 2 else 1))
    A(dict(op="pow", x=0, y=1, dest=2))
    A(dict(op="pow", x=4, y=3, dest=2))
    for x in (0, 3, 4):
        for o in ("+n", "n-", "*n", "n/", "**n", "0+", "+0", "sum1", "sum2", "*1", "1*", "/1", "**1", "-0"):
            A(dict(op="num", x=x, o=o, dest=2))
    for x in (0, 1, 3, 4):
        for o in ("neg", "abs", "absm", "sign", "copy", "full_like", "full_like_arr"):
            A(dict(op="un", x=x, o=o, dest=2))
    for x, how, arg in ((0, "sum_to", "ca"), (0, "sum_to", "abc"), (0, "sum_to", "cba"), (0, "sum_to", ""), (1, "sum_to", "ca"), (4, "sum_to", "a"), (0, "sum_over", "b"), (0, "sum_over", ""), (3, "sum_to", ""), (0, "cumsum", "b"), (4, "cumsum", "d"), (0, "shares", "b"), (0, "shares", "abc"), (4, "shares", "d")):
        A(dict(op="reduce", x=x, how=how, arg=arg, dest=2))
    for x, tgt in ((1, "ca"), (1, "ac"), (1, "cad"), (1, "dac"), (1, "cab"), (0, "abc"), (0, "cab"), (0, "abcd"), (3, ""), (3, "d"), (3, "b"), (4, "da"), (4, "ad"), (2, "b")):
        A(dict(op="cast", x=x, tgt=tgt, dest=2 if x != 2 else 1))
    for x, key in ((0, "ellipsis"), (0, "emptydict"), (0, "bare"), (0, "dict-letter"), (0, "dict-name"), (0, "two"), (0, "tuple"), (0, "all-single"), (0, "subset"), (0, "subset-full"), (0, "subset+item"), (1, "bare"), (3, "ellipsis"), (4, "bare-d"), (4, "ellipsis")):
        A(dict(op="read", x=x, key=key, dest=2))
    for x in (0, 1, 4):
        A(dict(op="ctor-from", x=x, dest=2))
        A(dict(op="to_df", x=x, layout="index"))
        A(dict(op="to_df", x=x, layout="columns"))
        A(dict(op="to_df", x=x, layout="wide"))
        A(dict(op="from_df", x=x, layout="index", dest=2))
        A(dict(op="from_df", x=x, layout="letters-int", dest=2))
    A(dict(op="from_df", x=4, layout="omit-single", dest=2))
    A(dict(op="to_df", x=0, layout="sparse"))
    A(dict(op="stack", xs=[1, 1], dest=2))
    A(dict(op="stack", xs=[2, 2], dest=1))
    A(dict(op="split", x=0, letter="b", dest=2))
    A(dict(op="split", x=4, letter="d", dest=2))
    A(dict(op="setitem-nd", x=0, key="bare"))
    A(dict(op="setitem-nd", x=0, key="ellipsis"))
    A(dict(op="setitem-nd", x=1, key="dict-letter"))
    A(dict(op="setitem-arr", x=0, y=1))
    A(dict(op="setitem-arr", x=1, y=0))
    A(dict(op="setitem-arr", x=2, y=0))
    A(dict(op="setitem-arr", x=0, y="same"))
    A(dict(op="setitem-arr", x=1, y="same"))
    A(dict(op="setitem-arr", x=4, y="permuted"))
    for x, o in ((0, "abs"), (1, "sign"), (0, "cumsum"), (4, "abs")):
        A(dict(op="inplace", x=x, o=o))
    A(dict(op="build-stock", cls="InflowDrivenDSM"))
    A(dict(op="build-stock", cls="StockDrivenDSM"))
    A(dict(op="build-stock", cls="SimpleFlowDrivenStock"))
    A(dict(op="build-lifetime", shape="full"))
    A(dict(op="build-lifetime", shape="permuted"))
    A(dict(op="build-lifetime", shape="subset"))
    A(dict(op="build-lifetime", shape="raw"))
    for how in ("union", "append", "expand_by", "dim-plus-set", "intersect", "get_subset"):
        A(dict(op="ctor-from-derived-set", x=0, y=4, how=how))
    A(dict(op="build-system-export"))
    return ops


OPS = make_ops()


def key_for(x, key):
    from flodym import Dimension

    L = x.dims.letters
    if key == "ellipsis" or not L:
        return Ellipsis
    if key == "emptydict":
        return {}
    if key == "bare":
        return x.dims[0].items[-1]
    if key == "bare-d":
        return "d1"
    if key == "dict-letter":
        return {L[-1]: x.dims[-1].items[0]}
    if key == "dict-name":
        return {x.dims[0].name: x.dims[0].items[0]}
    if key == "two":
        return {L[0]: x.dims[0].items[-1], L[-1]: x.dims[-1].items[0]} if len(L) > 1 else {L[0]: x.dims[0].items[0]}
    if key == "tuple":
        return (x.dims[0].items[0], x.dims[-1].items[-1]) if len(L) > 1 else x.dims[0].items[0]
    if key == "all-single":
        return {l: x.dims[l].items[0] for l in L}
    if key == "subset":
        return {L[-1]: Dimension(name="Subset", letter="w", items=list(reversed(x.dims[-1].items))[:2])}
    if key == "subset-full":
        return {L[0]: Dimension(name="Subset", letter="w", items=list(x.dims[0].items))}
    if key == "subset+item":
        if len(L) < 2:
            return {L[0]: Dimension(name="Subset", letter="w", items=list(x.dims[0].items))}
        return {L[0]: x.dims[0].items[0], L[-1]: Dimension(name="Subset", letter="w", items=list(x.dims[-1].items)[:2])}
    raise ValueError(key)


def frame_of(x, layout):
    if layout == "index":
        return x.to_df()
    df = x.to_df(index=False)
    if layout == "letters-int":
        df.columns = [x.dims[c].letter if c in x.dims else c for c in df.columns]
        df["value"] = np.arange(len(df), dtype=np.int64)
        return df
    if layout == "omit-single":
        return df.drop(columns=[d.name for d in x.dims if d.len == 1])
    return df


def frame_same(a, b):
    return list(a.columns) == list(b.columns) and list(a.index.names) == list(b.index.names) and a.index.equals(b.index) and a.equals(b) and all(str(x) == str(y) for x, y in zip(a.dtypes, b.dtypes))


def apply_op(st, op, check):
    import flodym
    from flodym import Dimension, DimensionSet, FlodymArray

    r = st.r
    before = snap(st)
    name = op["op"]
    # registers that (legitimately, e.g. through sum_to over all dims) share memory with a written register
    aliased = set()
    if name in ("setitem-nd", "setitem-arr", "inplace"):
        aliased = {i for i, a in enumerate(r) if np.shares_memory(a.values, r[op["x"]].values)}
    extra_inputs = []  # (label, object, snapshot-fn result)
    probe_values = True  # whether the result's values must be independent

    def call():
        nonlocal probe_values
        if name == "bin":
            x, y = r[op["x"]], r[op["y"]]
            return {"+": lambda: x + y, "-": lambda: x - y, "*": lambda: x * y, "/": lambda: x / (y + 1000.0), "min": lambda: x.minimum(y), "max": lambda: x.maximum(y)}[op["o"]]()
        if name == "pow":
            return r[op["x"]] ** r[op["y"]].sign()
        if name == "num":
            x = r[op["x"]]
            return {
                "+n": lambda: x + 2, "n-": lambda: 2.5 - x, "*n": lambda: x * 3, "n/": lambda: 2 / (x + 1000.0), "**n": lambda: x**2,
                # neutral elements: the result equals the source but must still be an independent array
                "0+": lambda: 0 + x, "+0": lambda: x + 0.0, "sum1": lambda: sum([x]), "sum2": lambda: sum([x, x]), "*1": lambda: x * 1,
                "1*": lambda: 1.0 * x, "/1": lambda: x / 1, "**1": lambda: x**1, "-0": lambda: x - 0,
            }[op["o"]]()
        if name == "un":
            x = r[op["x"]]
            return {"neg": lambda: -x, "abs": lambda: abs(x), "absm": lambda: x.abs(), "sign": lambda: x.sign(), "copy": lambda: x.copy(), "full_like": lambda: FlodymArray.full_like(x, 2.5), "full_like_arr": lambda: FlodymArray.full_like(x, x.values)}[op["o"]]()
        if name == "reduce":
            probe_values = True  # reductions return arrays of their own as well (also when nothing is summed away)
            x = r[op["x"]]
            how, arg = op["how"], tuple(l for l in op["arg"] if l in x.dims.letters)
            if how == "sum_to":
                return x.sum_to(arg)
            if how == "sum_over":
                return x.sum_over(arg)
            if how == "cumsum":
                if not arg:
                    return x.copy()
                return x.cumsum(arg[0])
            return (x + 1000.0).get_shares_over(arg) if False else x.get_shares_over(arg)
        if name == "cast":
            x = r[op["x"]]
            tgt = "".join(dict.fromkeys("".join(l for l in op["tgt"]) + "".join(x.dims.letters)))  # make sure it is a superset
            tgt = op["tgt"] if all(l in op["tgt"] for l in x.dims.letters) else tgt
            tgt = "".join(l for l in tgt if l in ITEMS)
            if any(l not in ITEMS for l in x.dims.letters):
                return x.copy()
            return x.cast_to(DS(tgt))
        if name == "read":
            x = r[op["x"]]
            return x[key_for(x, op["key"])]
        if name == "ctor-from-derived-set":
            # an array built from a DimensionSet that is itself the fresh RESULT of a set operation: the array's own
            # dimension set is independent of that object (in-place edits on either side stay on that side)
            x, y = r[op["x"]], r[op["y"]]
            z = Dimension(name="Zeta", letter="z", items=["z1"])
            e = Dimension(name="Epsi", letter="e", items=list(ITEMS["e"]))
            ds = {
                "union": lambda: x.dims | y.dims,
                "append": lambda: x.dims.append(e),
                "expand_by": lambda: x.dims.expand_by([e]),
                "dim-plus-set": lambda: e + x.dims,
                "intersect": lambda: x.dims & y.dims,
                "get_subset": lambda: x.dims.get_subset(tuple(reversed(x.dims.letters))),
            }[op["how"]]()
            letters = tuple(ds.letters)
            for first in (True, False):  # the first and the second array built from that set
                arr = FlodymArray(dims=ds)
                ds.append(z, inplace=True)
                leaked = "z" in arr.dims.letters
                ds.drop("z", inplace=True)
                if leaked or tuple(arr.dims.letters) != letters:
                    raise AssertionError(f"INPUT-CHANGED: an in-place edit of the DimensionSet returned by {op['how']} reached the {'first' if first else 'second'} array built from it")
                arr.dims.append(z, inplace=True)
                leaked = "z" in ds.letters
                arr.dims.drop("z", inplace=True)
                if leaked or tuple(ds.letters) != letters:
                    raise AssertionError(f"INPUT-CHANGED: an in-place edit of the dims of an array built from the result of {op['how']} reached that DimensionSet")
            return None
        if name == "ctor-from":
            x = r[op["x"]]
            probe_values = False
            return FlodymArray(dims=x.dims, values=x.values.copy())
        if name == "to_df":
            x = r[op["x"]]
            if x.dims.ndim == 0:
                return None
            lay = op["layout"]
            if lay == "index":
                df = x.to_df()
            elif lay == "columns":
                df = x.to_df(index=False)
            elif lay == "sparse":
                df = x.to_df(sparse=True)
            else:
                if x.dims.ndim < 2:
                    return None
                df = x.to_df(dim_to_columns=x.dims[-1].name)
            # scribbling on the frame must not reach the array
            arr = df.to_numpy(copy=False)
            try:
                if arr.size and arr.flags.writeable and arr.dtype.kind == "f":
                    arr[...] = -777.0
            except Exception:
                pass
            return None
        if name == "from_df":
            x = r[op["x"]]
            if x.dims.ndim == 0:
                return None
            probe_values = False
            df = frame_of(x, op["layout"])
            extra_inputs.append(("DataFrame", df, df.copy(deep=True)))
            return FlodymArray.from_df(dims=x.dims, df=df)
        if name == "stack":
            xs = [r[i] for i in op["xs"]]
            if "e" in xs[0].dims.letters:
                return None
            probe_values = False
            from flodym.flodym_array_helper import flodym_array_stack

            return flodym_array_stack(xs, Dimension(name="Epsi", letter="e", items=list(ITEMS["e"])))
        if name == "split":
            x = r[op["x"]]
            if op["letter"] not in x.dims.letters:
                return None
            parts = x.split(op["letter"])
            return list(parts.values())[-1]
        if name == "inplace":  # explicitly in-place operations: only the receiver may change
            x = r[op["x"]]
            if op["o"] == "abs":
                out = x.abs(inplace=True)
            elif op["o"] == "sign":
                out = x.sign(inplace=True)
            else:
                if not x.dims.letters:
                    return None
                out = x.cumsum(x.dims.letters[-1], inplace=True)
            if out is not None:
                raise AssertionError("INPUT-CHANGED: an in-place operation returned a value")
            return None
        if name == "setitem-nd":
            x = r[op["x"]]
            k = key_for(x, op["key"])
            region = x[k]
            nd = np.array(np.full(region.values.shape, 50.0) + np.arange(region.values.size).reshape(region.values.shape))
            x[k] = nd
            after = x.values.copy()
            nd[...] = -999.0  # an ndarray assigned through [] is copied
            if not np.array_equal(after, x.values):
                raise AssertionError("NOT-COPIED")
            return None
        if name == "setitem-arr":
            x = r[op["x"]]
            if op["y"] == "same":  # a fresh right-hand side over exactly the target's dims, same storage order
                y = FlodymArray(dims=x.dims, values=np.array(x.values * 0.0 + 7.0 + np.arange(x.values.size).reshape(x.values.shape)))
            elif op["y"] == "permuted":
                rev = x.dims.get_subset(tuple(reversed(x.dims.letters)))
                y = FlodymArray(dims=rev, values=np.array(np.arange(float(rev.total_size)).reshape(rev.shape) + 3.0))
            else:
                y = r[op["y"]]
            if any(l not in y.dims.letters for l in x.dims.letters):
                return None
            if np.shares_memory(x.values, y.values):
                return None  # the two registers alias already (e.g. through sum_to over all dims): not an effect of the assignment
            ysig = sig(y)
            x[...] = y
            if sig(y) != ysig:
                raise AssertionError("RHS-CHANGED")
            xs = x.values.copy()
            yold = y.values.copy()
            y.values[...] = y.values + 1.0
            ok = np.array_equal(xs, x.values)
            y.values[...] = yold
            if not ok:
                raise AssertionError("RHS-ALIASED")
            ys = y.values.copy()
            xold = x.values.copy()
            x.values[...] = x.values + 1.0
            ok = np.array_equal(ys, y.values)
            x.values[...] = xold
            if not ok:
                raise AssertionError("RHS-ALIASED: editing the target in place afterwards changed the right-hand side")
            return None
        if name in ("build-stock", "build-lifetime", "build-system-export") or name == "never":
            return build_objects(op, extra_inputs)
        raise ValueError(name)

    status, got = attempt(call)

    def fail(kind, what):
        return "fail", dict(case={}, tags=dict(kind=kind, op=name, detail=str(op.get("o", op.get("how", op.get("key", op.get("layout", "")))))), what=f"{ {k: v for k, v in op.items()} }: {what}")

    if status == "raised":
        if "NOT-COPIED" in got:
            return fail("not-copied", "changing an ndarray after assigning it through [] changed the target")
        if "RHS-CHANGED" in got or "RHS-ALIASED" in got:
            return fail("aliased", f"array assignment: {got}")
        if "INPUT-CHANGED" in got:
            return fail("input-changed", got)
        # an operation that is not applicable in this state (e.g. missing dims): inputs must be untouched anyway
        if name not in ("setitem-nd", "setitem-arr", "inplace") and snap(st) != before:
            return fail("input-changed", f"the call raised ({got}) and changed a register")
        return "not-applicable", None
    writes = name in ("setitem-nd", "setitem-arr", "inplace")
    if check:
        now = snap(st)
        for i, (a, b) in enumerate(zip(now, before)):
            if a != b and not (writes and i in aliased):
                what = "values" if a[2] != b[2] else ("dims" if a[0] != b[0] else "name")
                return fail("input-changed", f"register r{i} ({what}) was modified by a non-in-place operation")
        for label, obj, cp in extra_inputs:
            if isinstance(obj, pd.DataFrame):
                if not frame_same(obj, cp):
                    return fail("input-changed", f"the {label} handed in was modified (columns {list(cp.columns)} -> {list(obj.columns)}, dtypes {[str(t) for t in cp.dtypes]} -> {[str(t) for t in obj.dtypes]})")
            elif isinstance(obj, np.ndarray) and not np.array_equal(obj, cp):
                return fail("input-changed", f"the {label} handed in was modified")
        if isinstance(got, FlodymArray):
            res = got
            # --- values: write-through probes in both directions
            if probe_values and res.values.size:
                rv = res.values
                if rv.flags.writeable:
                    old = rv.copy()
                    rv[...] = rv + 12345.0
                    leak = [i for i, (a, b) in enumerate(zip(snap(st), now)) if a != b]
                    rv[...] = old
                    if leak:
                        return fail("result-aliases-source", f"writing into the result's values changed register(s) {['r%d' % i for i in leak]}")
                rs = res.values.copy()
                for i, a in enumerate(st.r):
                    if a.values.size and a.values.flags.writeable:
                        old = a.values.copy()
                        a.values[...] = a.values + 54321.0
                        moved = not np.array_equal(rs, res.values, equal_nan=True)
                        a.values[...] = old
                        if moved:
                            return fail("result-aliases-source", f"writing into register r{i} changed the result's values")
            # --- dimension set: in-place edits in both directions
            z = Dimension(name="Zeta", letter="z", items=["z1"])
            res.dims.append(z, inplace=True)
            leak = [i for i, a in enumerate(st.r) if "z" in a.dims.letters]
            res.dims.drop("z", inplace=True)
            if leak:
                for i in leak:
                    if "z" in st.r[i].dims.letters:
                        st.r[i].dims.drop("z", inplace=True)
                return fail("dims-shared", f"editing the result's dimension set in place changed the dims of register(s) {['r%d' % i for i in leak]}")
            for i, a in enumerate(st.r):
                a.dims.append(z, inplace=True)
                shared = "z" in res.dims.letters
                a.dims.drop("z", inplace=True)
                if shared:
                    if "z" in res.dims.letters:
                        res.dims.drop("z", inplace=True)
                    return fail("dims-shared", f"editing the dimension set of register r{i} in place changed the result's dims")
    if isinstance(got, FlodymArray) and op.get("dest") is not None:
        got.name = f"r{op['dest']}"
        st.r[op["dest"]] = got
    return "ok", None


def build_objects(op, extra_inputs):
    """build stocks / lifetime models / systems from existing arrays; export; the arrays handed in must not change"""
    import flodym
    from flodym import Dimension, DimensionSet, FlodymArray, StockArray

    T = Dimension(name="Time", letter="t", items=[2000, 2001, 2002], dtype=int)
    P = Dimension(name="Product", letter="p", items=["p1", "p2", "p3"])
    dims = DimensionSet(dim_list=[T, P])
    dsnap = [(d.letter, tuple(d.items)) for d in dims]
    inflow = StockArray(dims=dims, values=np.arange(9.0).reshape(3, 3) + 1)
    mean_full = FlodymArray(dims=dims, values=np.full((3, 3), 2.0) + np.arange(9.0).reshape(3, 3) / 10)
    mean_perm = FlodymArray(dims=DimensionSet(dim_list=[P, T]), values=np.full((3, 3), 2.0) + np.arange(9.0).reshape(3, 3) / 10)
    mean_sub = FlodymArray(dims=DimensionSet(dim_list=[P]), values=np.array([2.0, 2.5, 3.0]))
    arrays = dict(inflow=inflow, mean_full=mean_full, mean_perm=mean_perm, mean_sub=mean_sub)
    snaps = {k: sig(v) for k, v in arrays.items()}

    def verify(stage):
        for k, v in arrays.items():
            if sig(v) != snaps[k]:
                raise AssertionError(f"INPUT-CHANGED: array '{k}' handed to {op} was modified ({stage})")
        if [(d.letter, tuple(d.items)) for d in dims] != dsnap:
            raise AssertionError(f"INPUT-CHANGED: the DimensionSet handed to {op} was modified ({stage})")

    def scribble_check(lm, arr_key, attr):
        # the parameter held by the model must not share memory with the array it was built from
        held = getattr(lm, attr).copy()
        arrays[arr_key].values[...] = arrays[arr_key].values + 100.0
        moved = not np.array_equal(held, getattr(lm, attr))
        arrays[arr_key].values[...] = arrays[arr_key].values - 100.0
        if moved:
            raise AssertionError(f"INPUT-CHANGED: lifetime parameter '{attr}' aliases the array it was built from (later changes to the array reach the model)")

    if op["op"] == "build-lifetime" and op["shape"] == "raw":
        # parameters handed over as raw float64 ndarrays of the model's full shape, then replaced by others (as in a
        # scenario loop): the first arrays are the caller's and stay as they were
        raw1 = dict(mean=mean_full.values.copy(), std=np.full((3, 3), 0.5))
        raw2 = dict(mean=mean_full.values.copy() + 1.0, std=np.full((3, 3), 0.75))
        keep1 = {k: v.copy() for k, v in raw1.items()}
        keep2 = {k: v.copy() for k, v in raw2.items()}
        for via in ("ctor", "set_prms"):
            if via == "ctor":
                lm = flodym.NormalLifetime(dims=dims, **raw1)
            else:
                lm = flodym.NormalLifetime(dims=dims)
                lm.set_prms(**raw1)
            _ = lm.sf
            lm.set_prms(**raw2)
            _ = lm.pdf
            lm.set_prms(mean=2.0, std=0.25)
            for nm in raw1:
                if not np.array_equal(raw1[nm], keep1[nm]):
                    raise AssertionError(f"INPUT-CHANGED: the ndarray handed over as '{nm}' ({via}) was modified by a later set_prms")
                if not np.array_equal(raw2[nm], keep2[nm]):
                    raise AssertionError(f"INPUT-CHANGED: the ndarray handed over as '{nm}' in the second set_prms was modified by a later set_prms")
        verify("raw parameters")
        return None
    if op["op"] == "build-lifetime":
        key = {"full": "mean_full", "permuted": "mean_perm", "subset": "mean_sub"}[op["shape"]]
        lm = flodym.NormalLifetime(dims=dims, mean=arrays[key], std=0.5)
        verify("constructor")
        lm2 = flodym.NormalLifetime(dims=dims)
        lm2.set_prms(mean=arrays[key], std=0.5)
        verify("set_prms")
        _ = lm.sf, lm2.pdf
        verify("tables")
        return None
    if op["op"] == "build-stock":
        cls = getattr(flodym, op["cls"])
        kw = dict(dims=dims)
        if op["cls"] != "SimpleFlowDrivenStock":
            kw["lifetime_model"] = flodym.NormalLifetime(dims=dims, mean=mean_perm, std=0.5)
        if op["cls"] == "StockDrivenDSM":
            kw["stock"] = inflow
        else:
            kw["inflow"] = inflow
        s = cls(**kw)
        verify("constructor")
        # the arrays handed in had their own (independent) dimension sets before; they still do afterwards:
        # editing the caller's DimensionSet or the stock's in place does not reach them
        z = Dimension(name="Zeta", letter="z", items=["z1"])
        for owner in (dims, s.dims):
            owner.append(z, inplace=True)
            leaked = [k for k, v in arrays.items() if "z" in v.dims.letters]
            owner.drop("z", inplace=True)
            for k in leaked:
                if "z" in arrays[k].dims.letters:
                    arrays[k].dims.drop("z", inplace=True)
            if leaked:
                raise AssertionError(f"INPUT-CHANGED: after building the stock, array(s) {leaked} share their dimension set with {'the DimensionSet handed in' if owner is dims else 'the stock'} (an in-place edit there reaches them)")
        # compute() writes the results; the driver it was given (prescribed stock / inflow) stays as it was -
        # over (t, p) and over time alone, with either solver
        dims1 = DimensionSet(dim_list=[T])
        drv1 = StockArray(dims=dims1, values=np.array([3.0, 5.0, 6.0]))
        for dd, drv in ((dims, inflow), (dims1, drv1)):
            for solver in (("manual", "lapack") if op["cls"] == "StockDrivenDSM" else (None,)):
                kw2 = dict(dims=dd)
                if op["cls"] != "SimpleFlowDrivenStock":
                    kw2["lifetime_model"] = flodym.NormalLifetime(dims=dd, mean=2.0, std=0.5)
                if solver:
                    kw2["solver"] = solver
                which = "stock" if op["cls"] == "StockDrivenDSM" else "inflow"
                kw2[which] = drv
                before = drv.values.copy()
                s2 = cls(**kw2)
                s2.compute()
                if not np.array_equal(drv.values, before):
                    raise AssertionError(f"INPUT-CHANGED: compute() of {op['cls']}{'' if not solver else ' (' + solver + ')'} over {dd.letters} changed the {which} array it was built from")
                if not np.array_equal(getattr(s2, which).values, before):
                    raise AssertionError(f"INPUT-CHANGED: compute() of {op['cls']}{'' if not solver else ' (' + solver + ')'} over {dd.letters} changed its own driver ({which}) array")
        verify("compute")
        return None
    # system + exports
    procs = flodym.make_processes(["sysenv", "use"])
    f1 = flodym.Flow(from_process=procs["sysenv"], to_process=procs["use"], name="sysenv => use", dims=dims, values=inflow.values.copy())
    f2 = flodym.Flow(from_process=procs["use"], to_process=procs["sysenv"], name="use => sysenv", dims=DimensionSet(dim_list=[P, T]), values=inflow.values.T.copy() + 1)
    par = flodym.Parameter(dims=dims, values=mean_full.values.copy(), name="par")
    stock = flodym.SimpleFlowDrivenStock(dims=dims, inflow=inflow, name="use_stock", process=procs["use"])
    objs = dict(f1=f1, f2=f2, par=par)
    osn = {k: sig(v) for k, v in objs.items()}
    mfa = flodym.MFASystem(dims=dims, parameters={"par": par}, processes=procs, flows={f1.name: f1, f2.name: f2}, stocks={"use_stock": stock})
    verify("MFASystem constructor")

    def vsys(stage):
        verify(stage)
        for k, v in objs.items():
            if sig(v) != osn[k]:
                raise AssertionError(f"INPUT-CHANGED: '{k}' of the system was modified by {stage}")

    vsys("MFASystem constructor")
    from flodym.export import data_writer as dw

    dw.convert_to_dict(mfa, "numpy")
    vsys("convert_to_dict(numpy)")
    d = dw.convert_to_dict(mfa, "pandas")
    for df in d["flows"].values():
        a = df.to_numpy(copy=False)
        if a.flags.writeable:
            a[...] = -5.0
    vsys("convert_to_dict(pandas) + editing the returned frames")
    with tempfile.TemporaryDirectory() as tmp:
        dw.export_mfa_to_pickle(mfa, os.path.join(tmp, "m.pickle"))
        dw.export_mfa_flows_to_csv(mfa, os.path.join(tmp, "flows"))
        dw.export_mfa_stocks_to_csv(mfa, os.path.join(tmp, "stocks"), with_in_and_out=True)
    vsys("pickle / csv export")
    mfa.check_mass_balance(tolerance=1e9)
    mfa.check_flows()
    vsys("check_mass_balance / check_flows")
    return None


def canon(st):
    return digest(*[repr((s, tuple(a.values.strides) if a.values.ndim else ())) for s, a in zip(snap(st), st.r)])


def bounds(tier):
    return dict(depth=2 if tier == "quick" else 3, alphabet=len(OPS), registers=5)


def units(tier, seed):
    return [dict(first=k, depth=2 if tier == "quick" else 3) for k in range(len(OPS))]


def run_unit(u):
    ops = OPS
    if u["depth"] >= 3:
        # depth 3 over the array-producing operations only (the others do not change the state)
        ops = [o for o in OPS if o.get("dest") is not None or o["op"].startswith("setitem") or o["op"] == "inplace"]
    r = bfs.explore(build_state, ops if u["depth"] >= 3 else OPS, apply_op, canon, u["depth"], prefix=[OPS[u["first"]]])
    for f in r["fails"]:
        f["case"] = dict(history=f["case"]["history"])
        f["what"] = f"history {f['case']['history']}: " + f["what"]
    res = dict(evals=r["transitions"], nontrivial=r["outcomes"].get("ok", 0), outcomes=r["outcomes"], fails=r["fails"], states=r["states"], transitions=r["transitions"], traces=r["traces"], samples=[])
    if u["first"] == 3:
        res["samples"].append(dict(history=[OPS[3], OPS[120] if len(OPS) > 120 else OPS[-1]], meaning="result of one operation feeds the next; inputs snapshotted, result probed for shared memory / shared dims"))
    return res


def replay(case):
    st = build_state()
    for op in case["history"]:
        oc, f = apply_op(st, op, True)
        if f:
            f["case"] = case
            return [f]
    return []
