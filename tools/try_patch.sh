#!/bin/sh
# usage: try_patch.sh <patch> <scratch worktree> <check id>...   (applies, runs checks with VERIF_REPO, reverts)
patch="$(realpath "$1")"; wt="$2"; shift 2
git -C "$wt" checkout -- . && git -C "$wt" apply "$patch" || { echo "patch does not apply"; exit 3; }
for c in "$@"; do
  out=$(cd /verif && VERIF_REPO="$wt" ./check "$c" --tier "${TIER:-quick}" 2>&1); rc=$?
  echo "== $c exit=$rc $(echo "$out" | grep -c '^VIOLATION') violation line(s)"
  echo "$out" | grep -A1 '^VIOLATION' | grep 'what:' | head -${NSHOW:-2}
done
git -C "$wt" checkout -- .
