#!/bin/sh
# usage: run_all.sh [tier]   - runs every check, prints one line each
tier="${1:-quick}"
cd /verif
for p in $(python3 -c "import json;print(' '.join(c['property_id'] for c in json.load(open('MANIFEST.json'))['checks']))"); do
  s=$(date +%s)
  out=$(./check $p --tier $tier 2>&1); rc=$?
  e=$(date +%s)
  echo "$p rc=$rc $((e-s))s $(echo "$out" | grep -c '^KNOWN-FINDING') known | $(echo "$out" | grep "^$p tier" | cut -c1-160)"
  [ $rc -ne 0 ] && echo "$out" | grep -A1 VIOLATION | head -6
done
