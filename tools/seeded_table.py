#!/usr/bin/env python3
"""Regenerates the seeded-change table of DESIGN.md (section 8) from seeded/*/meta.json."""
import glob
import json
import os
import re

here = os.path.dirname(os.path.dirname(os.path.abspath(__file__)))
# seeds whose demonstration still exits non-zero but which no longer break the property on the repaired tree
NEUTRALISED = {
    "C12-w4m2": "no longer a violation (neutralised by fix 21: the unknown item now ends in an IndexError instead of a silent mis-write - the data is refused, as the property demands; the demo merely does not catch that error)",
}
rows = []
for m in sorted(glob.glob(os.path.join(here, "seeded", "*", "meta.json"))):
    d = json.load(open(m))
    sid = d.get("seed_id", os.path.basename(os.path.dirname(m)))
    det = ", ".join(f"{c}: {'VIOLATION' if r['exit'] == 1 and r['violations'] else 'missed'}" for c, r in d.get("checks_run", {}).items())
    conf0 = d.get("confirmed", {})
    if sid in NEUTRALISED:
        det = NEUTRALISED[sid] + "; " + det.replace("missed", "silent, as it must be")
    elif not d.get("valid_seed") and conf0.get("demo_exit_with_patch") == 0:
        # the change no longer breaks the property on the repaired tree (a later fix: commit removed what it relied on)
        det = "no longer a violation (neutralised by a later fix of /repo); " + det.replace("missed", "silent, as it must be")
    summ = re.sub(r"\s+", " ", d.get("summary", ""))[:150].replace("|", "/")
    needs = re.sub(r"\s+", " ", d.get("needs", ""))[:110].replace("|", "/")
    conf = d.get("confirmed", {})
    ok = "yes" if d.get("valid_seed") else "NO"
    rows.append(f"| {sid} | {summ} | {needs} | {conf.get('repo_tests_passed_with_patch', '?')} / demo {conf.get('demo_exit_clean', '?')}->{conf.get('demo_exit_with_patch', '?')} | {det} |")
table = "| seed | change | needs | tests passed / demo exit clean->patched | quick check |\n|---|---|---|---|---|\n" + "\n".join(rows)
p = os.path.join(here, "DESIGN.md")
s = open(p).read()
start, end = "<!-- SEEDED-TABLE-START -->", "<!-- SEEDED-TABLE-END -->"
block = f"{start}\n{table}\n{end}"
if start in s:
    s = s[: s.index(start)] + block + s[s.index(end) + len(end) :]
else:
    s = s.replace("SEEDED_TABLE_PLACEHOLDER", block)
open(p, "w").write(s)
print(len(rows), "rows;", sum("missed" in r for r in rows), "missed;", sum("neutralised" in r for r in rows), "neutralised")
