#!/bin/sh
# run every quick check against every behaviour-preserving refactoring (must stay silent); 2 lanes
cd /verif
lane() {
  for r in "$@"; do
    for d in /tmp/ref/out/$r/r*; do
      [ -f "$d/patch.diff" ] || continue
      wt=/tmp/ref/$r
      git -C $wt checkout -- . ; git -C $wt apply $d/patch.diff || { echo "$r/$(basename $d) PATCH-FAILED"; continue; }
      for p in C01 C02 C03 C04 C05 C06 C07 C08 C09 C10 C11 C12 C13 C14 C15 C16 C17 C18 C19 C20; do
        out=$(VERIF_WORKERS=8 VERIF_REPO=$wt ./check $p --tier quick 2>&1); rc=$?
        if [ $rc -ne 0 ]; then echo "$r/$(basename $d) $p rc=$rc ALARM"; echo "$out" | grep -A1 -E "VIOLATION|MACHINERY" | head -4 | cut -c1-600; fi
      done
      echo "$r/$(basename $d) done"
      git -C $wt checkout -- .
    done
  done
}
lane R1 R3 R5 R7 > /tmp/w/ref_lane1.log 2>&1 &
lane R2 R4 R6 R8 > /tmp/w/ref_lane2.log 2>&1 &
wait
