#!/bin/sh
cd /verif
tools/seed_wave.sh /tmp/mut "" > /tmp/w/all_w1.log 2>&1
tools/seed_wave.sh /tmp/mut2 w3 > /tmp/w/all_w3.log 2>&1
tools/seed_wave.sh /tmp/mut3 w4 > /tmp/w/all_w4.log 2>&1
tools/seed_wave.sh /tmp/mut4 w5 > /tmp/w/all_w5.log 2>&1
