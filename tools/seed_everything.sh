#!/bin/sh
# re-verify every seeded wave against the current checks (4 lanes x 4 workers per wave)
cd /verif
tools/seed_wave.sh /tmp/mut "" > /tmp/w/all_w1.log 2>&1
tools/seed_wave.sh /tmp/mut2 w3 > /tmp/w/all_w3.log 2>&1
tools/seed_wave.sh /tmp/mut3 w4 > /tmp/w/all_w4.log 2>&1
tools/seed_wave.sh /tmp/mut4 w5 > /tmp/w/all_w5.log 2>&1
tools/seed_wave.sh /tmp/mut5 w6 > /tmp/w/all_w6.log 2>&1
tools/seed_wave.sh /tmp/mut6 w7 > /tmp/w/all_w7.log 2>&1
