#!/bin/sh
# run every quick check against every behaviour-preserving refactoring of /verif/refactors whose patch still applies
# to /repo's HEAD (must stay silent); two lanes, scratch worktrees given as $1 $2
cd /verif
lane() {
  wt="$1"; shift
  for d in "$@"; do
    git -C $wt checkout -- . ; git -C $wt apply /verif/refactors/$d/patch.diff 2>/dev/null || { echo "$d PATCH-DOES-NOT-APPLY (written against an older HEAD)"; continue; }
    (cd $wt && /venv/bin/python -m pytest -q -p no:cacheprovider --timeout=900 2>&1 | tail -1 | sed "s/^/$d tests: /")
    for p in C01 C02 C03 C04 C05 C06 C07 C08 C09 C10 C11 C12 C13 C14 C15 C16 C17 C18 C19 C20; do
      out=$(VERIF_WORKERS=8 VERIF_REPO=$wt ./check $p --tier quick 2>&1); rc=$?
      if [ $rc -ne 0 ]; then echo "$d $p rc=$rc ALARM"; echo "$out" | grep -A1 -E "VIOLATION|MACHINERY" | head -4 | cut -c1-600; fi
    done
    echo "$d done"
    git -C $wt checkout -- .
  done
}
all=$(ls /verif/refactors)
l1=""; l2=""; k=0
for d in $all; do if [ $((k % 2)) -eq 0 ]; then l1="$l1 $d"; else l2="$l2 $d"; fi; k=$((k+1)); done
lane "$1" $l1 > /tmp/w/ref_lane1.log 2>&1 &
lane "$2" $l2 > /tmp/w/ref_lane2.log 2>&1 &
wait
cat /tmp/w/ref_lane1.log /tmp/w/ref_lane2.log
