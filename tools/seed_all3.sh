#!/bin/sh
# re-verify both waves (4 lanes)
cd /verif
lane() {
  for p in "$@"; do
    for d in /tmp/mut/out/$p/m*; do [ -d "$d" ] && VERIF_WORKERS=4 python3 tools/seed_verify.py $d /tmp/mut/$p $p-$(basename $d); done
    for d in /tmp/mut2/out/$p/m*; do [ -d "$d" ] && VERIF_WORKERS=4 python3 tools/seed_verify.py $d /tmp/mut2/$p $p-w3$(basename $d); done
  done
}
lane C01 C02 C03 C04 C05 > /tmp/w/seed3_lane1.log 2>&1 &
lane C06 C07 C08 C09 C10 > /tmp/w/seed3_lane2.log 2>&1 &
lane C11 C12 C13 C14 C15 > /tmp/w/seed3_lane3.log 2>&1 &
lane C16 C17 C18 C19 C20 > /tmp/w/seed3_lane4.log 2>&1 &
wait
