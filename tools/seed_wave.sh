#!/bin/sh
# usage: seed_wave.sh <root e.g. /tmp/mut3> <id prefix e.g. w4>    re-verify one wave against own checks (4 lanes)
root="$1"; pre="$2"
cd /verif
lane() {
  for p in "$@"; do
    for d in $root/out/$p/m*; do [ -d "$d" ] && VERIF_WORKERS=4 python3 tools/seed_verify.py $d $root/$p $p-$pre$(basename $d); done
  done
}
lane C01 C02 C03 C04 C05 > /tmp/w/wave_${pre}_1.log 2>&1 &
lane C06 C07 C08 C09 C10 > /tmp/w/wave_${pre}_2.log 2>&1 &
lane C11 C12 C13 C14 C15 > /tmp/w/wave_${pre}_3.log 2>&1 &
lane C16 C17 C18 C19 C20 > /tmp/w/wave_${pre}_4.log 2>&1 &
wait
cat /tmp/w/wave_${pre}_*.log | grep -E "^C[0-9]+-" | sort
