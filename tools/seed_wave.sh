#!/bin/sh
# usage: seed_wave.sh <root e.g. /tmp/mut3> <id prefix e.g. w4>    re-verify one wave against own checks (5 lanes x 3 workers)
root="$1"; pre="$2"
cd /verif
lane() {
  for p in "$@"; do
    for d in $root/out/$p/m*; do [ -d "$d" ] && VERIF_WORKERS=3 python3 tools/seed_verify.py $d $root/$p $p-$pre$(basename $d); done
  done
}
lane C01 C05 C09 C13 > /tmp/w/wave_${pre}_1.log 2>&1 &
lane C02 C06 C10 C14 > /tmp/w/wave_${pre}_2.log 2>&1 &
lane C03 C07 C11 C15 > /tmp/w/wave_${pre}_3.log 2>&1 &
lane C04 C08 C12 C16 > /tmp/w/wave_${pre}_4.log 2>&1 &
lane C17 C18 C19 C20 > /tmp/w/wave_${pre}_5.log 2>&1 &
wait
cat /tmp/w/wave_${pre}_*.log | grep -E "^C[0-9]+-" | sort
