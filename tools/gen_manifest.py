#!/venv/bin/python
"""Regenerates MANIFEST.json from the metadata in checks/cNN.py (run from /verif)."""
import importlib
import json
import os
import sys

here = os.path.dirname(os.path.dirname(os.path.abspath(__file__)))
sys.path.insert(0, here)
os.environ.setdefault("PYTHONHASHSEED", "0")
os.environ["_MC_BOOT"] = "1"
from mc import env  # noqa

env.bootstrap()

props = [json.loads(l) for l in open(os.path.join(here, "properties.jsonl"))]
checks, na = [], []
for p in props:
    pid = p["id"]
    path = os.path.join(here, "checks", pid.lower() + ".py")
    if not os.path.exists(path):
        na.append(dict(property_id=pid, reason="check not built yet in this round (planned: bounded exhaustive exploration, see DESIGN.md section 5)"))
        continue
    m = importlib.import_module("checks." + pid.lower())
    c = dict(
        property_id=pid,
        quick_cmd=f"./check {pid} --tier quick",
        thorough_cmd=f"./check {pid} --tier thorough",
        evidence_file=f"/verif/evidence/{pid}.json",
        replay_cmd_template=f"./check {pid} --replay {{path}}",
        engine=getattr(m, "ENGINE", "E1-enumeration"),
        level_claimed=dict(category=m.LEVEL, text=m.LEVEL_TEXT, design_ref=f"DESIGN.md section 5, {pid}"),
        level_note=m.LEVEL_NOTE,
        technique=m.TECHNIQUE,
    )
    checks.append(c)
man = dict(
    version=1,
    setup_cmd="/venv/bin/python -B -c \"import sys; sys.path.insert(0,'/repo'); import flodym, numpy, pandas, scipy; print('flodym', flodym.__file__)\"",
    hooks=dict(
        guard="FLODYM_VERIF",
        enable="no instrumentation is needed: every observation point is public API; the checks import flodym from /repo's working tree (pure Python, no build) with FLODYM_VERIF=1 set but unused",
        baseline_off_cmd="cd /repo && /venv/bin/python -m pytest -ra -q -p no:cacheprovider --timeout=900",
        source_commits=[],
        add_only=True,
    ),
    engines=[
        dict(name="E1-enumeration", path="mc/engine.py", serves_properties=[c["property_id"] for c in checks if c["engine"] == "E1-enumeration"], kind_free_text="stateless bounded-exhaustive enumeration of configurations / inputs / faults, real flodym code run on every one, compared with a label-dict reference model"),
        dict(name="E2-bfs", path="mc/bfs.py", serves_properties=[c["property_id"] for c in checks if c["engine"] == "E2-bfs"], kind_free_text="explicit-state breadth-first search over operation histories on live flodym objects with a lockstep reference model"),
    ],
    checks=checks,
    notes="All checks: ./check <id> --tier quick|thorough [--replay file]. Known findings: known_findings.json. Design: DESIGN.md.",
    not_applicable=na,
)
json.dump(man, open(os.path.join(here, "MANIFEST.json"), "w"), indent=1)
print("checks:", [c["property_id"] for c in checks], "not claimed:", [n["property_id"] for n in na])
