#!/usr/bin/env python3
"""Confirm a seeded change and run checks against it.

usage: seed_verify.py <mutant dir with patch.diff demo.py meta.json> <worktree> <seed id> [check ids...]

Steps (all in the scratch worktree, never in /repo):
  1. clean tree: demo exits 0
  2. apply patch: repository test-suite still passes (81), demo exits != 0
  3. run the given checks (default: the mutant's own property) with VERIF_REPO=<worktree>
  4. restore the worktree; copy patch/demo/meta (+ what was run) to /verif/seeded/<seed id>/
"""
import json
import os
import re
import shutil
import subprocess
import sys
import time

VERIF = os.path.dirname(os.path.dirname(os.path.abspath(__file__)))


def sh(cmd, cwd=None, env=None, timeout=3600):
    e = dict(os.environ)
    e.update(env or {})
    r = subprocess.run(cmd, shell=True, cwd=cwd, env=e, capture_output=True, text=True, timeout=timeout)
    return r.returncode, r.stdout + r.stderr


def main():
    mdir, wt, sid = sys.argv[1:4]
    checks = sys.argv[4:]
    meta = json.load(open(os.path.join(mdir, "meta.json")))
    prop = meta["property"]
    checks = checks or [prop]
    patch = os.path.join(mdir, "patch.diff")
    demo_src = open(os.path.join(mdir, "demo.py")).read()
    # make the demonstration relocatable: FLODYM_ROOT (default /repo) instead of the scratch path
    demo_src = re.sub(r"([\"'])/tmp/mut[234567]?/C\d\d\1", '__import__("os").environ.get("FLODYM_ROOT", "/repo")', demo_src)
    demo_src = re.sub(r"/tmp/mut[234567]?/C\d\d", "/repo", demo_src)
    out = os.path.join(VERIF, "seeded", sid)
    os.makedirs(out, exist_ok=True)
    demo = os.path.join(out, "demo.py")
    open(demo, "w").write(demo_src)
    shutil.copy(patch, os.path.join(out, "patch.diff"))
    envd = dict(PYTHONPATH=wt, FLODYM_ROOT=wt, PYTHONDONTWRITEBYTECODE="1")
    sh("git checkout -- .", cwd=wt)
    rc_clean, o1 = sh(f"/venv/bin/python {demo}", cwd=wt, env=envd)
    rc, o = sh(f"git apply {patch}", cwd=wt)
    if rc != 0:
        print("PATCH DOES NOT APPLY", o)
        sys.exit(3)
    t0 = time.time()
    rc_t, ot = sh("/venv/bin/python -m pytest -q -p no:cacheprovider --timeout=900 -x 2>&1 | tail -3", cwd=wt, env=dict(PYTHONDONTWRITEBYTECODE="1"))
    passed = re.search(r"(\d+) passed", ot)
    failed = re.search(r"(\d+) failed", ot)
    n_pass = int(passed.group(1)) if passed else 0
    rc_mut, o2 = sh(f"/venv/bin/python {demo}", cwd=wt, env=envd)
    results = {}
    for c in checks:
        t1 = time.time()
        # VERIF_FAILFAST: the check stops after the first work unit with an unknown failure (detection is all that is asked)
        rc_c, oc = sh(f"./check {c} --tier quick", cwd=VERIF, env=dict(VERIF_REPO=wt, VERIF_FAILFAST=os.environ.get("VERIF_FAILFAST", "1")))
        viol = [l for l in oc.splitlines() if l.startswith("VIOLATION")]
        what = [l.strip() for l in oc.splitlines() if l.strip().startswith("what:")]
        results[c] = dict(exit=rc_c, violations=len(viol), first=what[:2], wall_s=round(time.time() - t1, 1))
    sh("git checkout -- .", cwd=wt)
    ok = rc_clean == 0 and rc_mut != 0 and n_pass == 81 and not failed
    meta_out = dict(meta)
    meta_out.update(
        seed_id=sid,
        confirmed=dict(
            demo_exit_clean=rc_clean,
            demo_exit_with_patch=rc_mut,
            repo_tests_passed_with_patch=n_pass,
            repo_tests_failed_with_patch=int(failed.group(1)) if failed else 0,
            how="scratch git worktree of /repo HEAD: demo on clean tree; git apply patch.diff; "
            "/venv/bin/python -m pytest -q -p no:cacheprovider --timeout=900; demo again; "
            "./check <id> --tier quick with VERIF_REPO=<worktree> (VERIF_FAILFAST=1: stops at the first failing work unit); git checkout -- .",
        ),
        checks_run=results,
        valid_seed=ok,
    )
    json.dump(meta_out, open(os.path.join(out, "meta.json"), "w"), indent=1)
    det = {c: ("DETECTED" if r["exit"] == 1 and r["violations"] else f"missed(exit={r['exit']})") for c, r in results.items()}
    print(f"{sid}: valid={ok} clean={rc_clean} mut={rc_mut} tests={n_pass} {det}")
    for c, r in results.items():
        for w in r["first"][:1]:
            print("    ", c, w[:200])
    if not ok:
        print("   demo(clean) tail:", o1[-300:].replace("\n", " | "))
        print("   demo(mut) tail:", o2[-300:].replace("\n", " | "))
        print("   tests:", ot[-300:])


if __name__ == "__main__":
    main()
