#!/bin/sh
# re-verify every seeded mutant under /tmp/mut/out against its own property's check (4 lanes)
cd /verif
lane() {
  for p in "$@"; do
    for d in /tmp/mut/out/$p/m*; do
      [ -d "$d" ] || continue
      VERIF_WORKERS=4 python3 tools/seed_verify.py $d /tmp/mut/$p $p-$(basename $d)
    done
  done
}
lane C01 C02 C03 C04 C05 > /tmp/w/seed_lane1.log 2>&1 &
lane C06 C07 C08 C09 C10 > /tmp/w/seed_lane2.log 2>&1 &
lane C11 C12 C13 C14 C15 > /tmp/w/seed_lane3.log 2>&1 &
lane C16 C17 C18 C19 C20 > /tmp/w/seed_lane4.log 2>&1 &
wait
cat /tmp/w/seed_lane*.log | grep -E "^C[0-9]+-m" | sort
