"""Reference model: the "boring" specification, written from the property texts.

An array is a mapping  label tuple -> float  over an ordered tuple of dimension letters; there is
no notion of axis position, strides or broadcasting.  Every operation is a loop over label tuples.
No numpy indexing tricks, no einsum, no pandas.
"""

import itertools
import math


class MArr:
    __slots__ = ("letters", "items", "data", "names")

    def __init__(self, letters, items, data, names=None):
        self.letters = tuple(letters)
        self.items = {l: tuple(items[l]) for l in self.letters}
        self.data = data
        self.names = names or {}

    def labels(self):
        return itertools.product(*[self.items[l] for l in self.letters])

    def copy(self):
        return MArr(self.letters, self.items, dict(self.data), dict(self.names))

    def same(self, other, tol=0.0):
        """Equality of dims (letters in order, items in order) and of every entry."""
        return self.diff(other, tol) is None

    def diff(self, other, tol=0.0):
        if self.letters != other.letters:
            return f"dimension letters {other.letters} != expected {self.letters}"
        for l in self.letters:
            if tuple(self.items[l]) != tuple(other.items[l]):
                return f"items of {l!r}: {other.items[l]} != expected {self.items[l]}"
        if set(self.data) != set(other.data):
            return "label sets differ"
        for k, v in self.data.items():
            w = other.data[k]
            if not close(v, w, tol):
                return f"entry {k}: got {w!r}, expected {v!r}"
        return None


def close(v, w, tol=0.0):
    if v != v or w != w:
        return v != v and w != w
    if v == w:
        return True
    if tol == 0.0:
        return False
    if math.isinf(v) or math.isinf(w):
        return False
    return abs(v - w) <= tol * max(1.0, abs(v), abs(w))


def project(lab, frm, to):
    return tuple(lab[frm.index(l)] for l in to)


def build(letters, items, fn):
    """fn(label tuple, letters) -> value"""
    letters = tuple(letters)
    data = {}
    for lab in itertools.product(*[items[l] for l in letters]):
        data[lab] = float(fn(lab))
    return MArr(letters, {l: items[l] for l in letters}, data)


def marginal(x, to):
    """Sum x over the dimensions not in `to`; result ordered as `to`."""
    to = tuple(to)
    out = {lab: 0.0 for lab in itertools.product(*[x.items[l] for l in to])}
    for lab, v in x.data.items():
        out[project(lab, x.letters, to)] += v
    return MArr(to, {l: x.items[l] for l in to}, out, x.names)


def merged_items(x, y):
    items = dict(y.items)
    items.update(x.items)
    return items


def additive(x, y, op):
    """x+y, x-y, minimum, maximum: common dims in x's order, operands summed over the rest."""
    common = tuple(l for l in x.letters if l in y.letters)
    mx, my = marginal(x, common), marginal(y, common)
    data = {lab: op(mx.data[lab], my.data[lab]) for lab in mx.data}
    return MArr(common, {l: x.items[l] for l in common}, data)


def multiplicative(x, y, op):
    """x*y, x/y: union of dims (x's first, then y's new ones), entry by labels."""
    union = x.letters + tuple(l for l in y.letters if l not in x.letters)
    items = merged_items(x, y)
    data = {}
    for lab in itertools.product(*[items[l] for l in union]):
        data[lab] = op(x.data[project(lab, union, x.letters)], y.data[project(lab, union, y.letters)])
    return MArr(union, {l: items[l] for l in union}, data)


def power(x, y):
    """x**y keeps x's dims, y's dims must be among them (None = must raise)."""
    if any(l not in x.letters for l in y.letters):
        return None
    data = {}
    for lab in x.data:
        data[lab] = x.data[lab] ** y.data[project(lab, x.letters, y.letters)]
    return MArr(x.letters, x.items, data)


def full_like(x, s):
    return MArr(x.letters, x.items, {lab: float(s) for lab in x.data})


def elementwise(x, fn):
    return MArr(x.letters, x.items, {lab: float(fn(v)) for lab, v in x.data.items()})


def cast(x, target_letters, items):
    """Replicate x along the added dims, in the target's order; None if target lacks a dim."""
    target_letters = tuple(target_letters)
    if any(l not in target_letters for l in x.letters):
        return None
    data = {}
    for lab in itertools.product(*[items[l] for l in target_letters]):
        data[lab] = x.data[project(lab, target_letters, x.letters)]
    return MArr(target_letters, {l: items[l] for l in target_letters}, data)


def cumsum(x, letter):
    k = x.letters.index(letter)
    data = {}
    for lab in x.data:
        pos = x.items[letter].index(lab[k])
        s = 0.0
        for it in x.items[letter][: pos + 1]:
            s += x.data[lab[:k] + (it,) + lab[k + 1 :]]
        data[lab] = s
    return MArr(x.letters, x.items, data)


def select(x, sel):
    """Slice semantics.  sel: letter -> ("item", it) | ("sub", new_letter, items).
    Result dims = original with single selections dropped and subset selections replaced
    (new letter, requested item order)."""
    out_letters = []
    out_items = {}
    choices = []  # per original dim: list of (label in result or None, source item)
    for l in x.letters:
        s = sel.get(l)
        if s is None:
            out_letters.append(l)
            out_items[l] = x.items[l]
            choices.append([(it, it) for it in x.items[l]])
        elif s[0] == "item":
            choices.append([(None, s[1])])
        else:
            out_letters.append(s[1])
            out_items[s[1]] = tuple(s[2])
            choices.append([(it, it) for it in s[2]])
    data = {}
    src = {}
    for ch in itertools.product(*choices):
        lab = tuple(c[0] for c in ch if c[0] is not None)
        s = tuple(c[1] for c in ch)
        data[lab] = x.data[s]
        src[lab] = s
    return MArr(tuple(out_letters), out_items, data), src
