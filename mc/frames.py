"""Table model for the DataFrame properties (C11, C12): a table is a list of records
(labels: dict dimension key -> item, value) plus a layout descriptor.  pandas is used only as a
PRODUCER of input frames; expected results are always computed from the record list."""

import io
import itertools

import numpy as np
import pandas as pd

# pool of dimensions: key -> (name, letter, items, dtype)
POOL = {
    "T": ("Time", "t", (2000, 2001, 2002), int),
    "N": ("Number", "n", (0, 1), None),  # untyped integer items starting at 0 (they look like a default row index)
    "S": ("Sector", "s", ("x", "y"), str),
    "U": ("Unit", "u", ("u1", "u2", "u3"), None),
    "O": ("One", "o", ("only",), str),
    "I": ("Idx", "i", (7,), None),
    "Y": ("Year", "k", (1991, 1989, 1990), int),  # consecutive range, listed unsorted
    "M": ("Mixed", "m", ("pre-1990", 1990, 2000), None),  # untyped items of mixed type (in memory only)
    "F": ("Frac", "f", (0.5, 2.5, 1.5), float),  # float items (a column identified through its items is then a float column)
    "G": ("Age", "g", (9, 10, 11), int),  # as text ("10" < "11" < "9") ordered differently than as numbers
}


def make_dims(keys):
    from flodym import Dimension, DimensionSet

    return DimensionSet(dim_list=[Dimension(name=POOL[k][0], letter=POOL[k][1], items=list(POOL[k][2]), dtype=POOL[k][3]) for k in keys])


def value_of(keys, lab, sparse=False):
    """distinct, non-integer, far from every item value; sparse: every third entry is exactly zero"""
    code = 0
    for k, it in zip(keys, lab):
        code = code * 4 + POOL[k][2].index(it) + 1
    if sparse and code % 3 == 0:
        return 0.0
    if sparse and code % 3 == 1:
        return float(f"{code}e-11")  # tiny but NOT zero (short decimal: exact through CSV text)
    return 100.5 + code * 1.25


def records(keys, sparse=False):
    out = []
    for lab in itertools.product(*[POOL[k][2] for k in keys]):
        out.append((dict(zip(keys, lab)), value_of(keys, lab, sparse)))
    return out


def array_of(keys, sparse=False, prov="C"):
    from flodym import FlodymArray

    ds = make_dims(keys)
    v = np.zeros(ds.shape)
    for idx in itertools.product(*[range(n) for n in ds.shape]):
        lab = tuple(POOL[k][2][i] for k, i in zip(keys, idx))
        v[idx] = value_of(keys, lab, sparse)
    if prov == "F":
        v = np.asfortranarray(v)
    elif prov == "view" and v.ndim:
        big = np.zeros(tuple(2 * n for n in v.shape)) - 1.0
        sl = tuple(slice(1, 2 * n, 2) for n in v.shape)
        big[sl] = v
        v = big[sl]
    return FlodymArray(dims=ds, values=v)


def permute(seq, how):
    seq = list(seq)
    n = len(seq)
    if how == "id" or n < 2:
        return seq
    if how == "rev":
        return seq[::-1]
    if how.startswith("rot"):
        k = int(how[3:]) % n
        return seq[k:] + seq[:k]
    if how == "interleave":
        return seq[1::2] + seq[0::2]
    raise ValueError(how)


def header_name(k, pos, style, role="dim"):
    if style == "names":
        return POOL[k][0]
    if style == "letters":
        return POOL[k][1]
    if style == "mixed":
        return POOL[k][0] if pos % 2 == 0 else POOL[k][1]
    return f"c{pos}"  # items-only: the header says nothing about the dimension


def build_frame(keys, recs, layout):
    """layout: dict(wide: key|None, index: list of keys, header: names|letters|mixed|items-only,
    omit: list of single-item keys, valname, rowperm, colperm, medium: memory|csv)
    returns (frame, info) with info['columns'] = final column roles in order (for classification)."""
    wide = layout.get("wide")
    omit = set(layout.get("omit", []))
    style = layout["header"]
    valname = layout.get("valname", "value")
    dimkeys = [k for k in keys if k != wide]
    if wide is None:
        rows = [[r[0][k] for k in dimkeys] + [r[1]] for r in recs]
        cols = [("dim", k) for k in dimkeys] + [("val", valname)]
    else:
        table = {}
        order = []
        for lab, v in recs:
            rk = tuple(lab[k] for k in dimkeys)
            if rk not in table:
                table[rk] = {}
                order.append(rk)
            table[rk][lab[wide]] = v
        witems = list(POOL[wide][2])
        rows = [list(rk) + [table[rk].get(it, np.nan) for it in witems] for rk in order]
        cols = [("dim", k) for k in dimkeys] + [("item", it) for it in witems]
    # drop omitted single-item dimension columns
    keep = [i for i, c in enumerate(cols) if not (c[0] == "dim" and c[1] in omit)]
    cols = [cols[i] for i in keep]
    rows = [[row[i] for i in keep] for row in rows]
    names = []
    for pos, c in enumerate(cols):
        if c[0] == "dim":
            names.append(header_name(c[1], keys.index(c[1]), style))
        else:
            names.append(c[1])
    rows = permute(rows, layout.get("rowperm", "id"))
    index_keys = [k for k in layout.get("index", []) if k in dimkeys and k not in omit]
    idx_pos = [i for i, c in enumerate(cols) if c[0] == "dim" and c[1] in index_keys]
    other_pos = [i for i in range(len(cols)) if i not in idx_pos]
    other_pos = permute(other_pos, layout.get("colperm", "id"))
    def column(i):
        vals = [row[i] for row in rows]
        if cols[i][0] != "dim":
            return pd.Series(vals, dtype=float)
        if all(isinstance(v, (int, np.integer)) and not isinstance(v, bool) for v in vals):
            return pd.Series(vals, dtype="int64")
        return pd.Series(vals, dtype=object)

    df = pd.DataFrame({j: column(i) for j, i in enumerate(other_pos)})
    df.columns = pd.Index([names[i] for i in other_pos], dtype=object)
    if layout.get("cat"):
        for j, i in enumerate(other_pos):
            if cols[i][0] == "dim":
                try:
                    df[df.columns[j]] = df[df.columns[j]].astype("category")
                except (TypeError, ValueError):
                    pass  # labels that cannot form categories stay as they are
    if idx_pos:
        arrays = [[row[i] for row in rows] for i in idx_pos]
        inames = [names[i] if style != "items-only" else None for i in idx_pos]
        if len(arrays) == 1:
            df.index = pd.Index(arrays[0], name=inames[0])
        else:
            df.index = pd.MultiIndex.from_arrays(arrays, names=inames)
    elif layout.get("rowindex") == "repeat" and len(df) > 1:
        # an unnamed integer row index with REPEATED labels (e.g. pieces concatenated without ignore_index)
        df.index = pd.Index([i % 2 for i in range(len(df))], dtype="int64")
    final_roles = [cols[i][0] for i in idx_pos] + [cols[i][0] for i in other_pos]
    seen_val = False
    vbd = False
    for rl in final_roles:
        if rl in ("val", "item"):
            seen_val = True
        elif seen_val:
            vbd = True
    info = dict(value_before_dim=vbd, n_rows=len(rows))
    if layout.get("medium", "memory") == "csv":
        buf = io.StringIO()
        df.to_csv(buf, index=bool(idx_pos))
        df = pd.read_csv(io.StringIO(buf.getvalue()))
    return df, info
