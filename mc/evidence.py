"""Writes /verif/evidence/<id>.json and validates it against the harness schema when possible."""

import json
import os
import shutil
import subprocess

from . import env

SCHEMA = "/root/.vp/EVIDENCE.schema.json"


def write(pid, tier, seed, level, coverage, assumptions, wall_s, violations):
    body = dict(
        property_id=pid,
        tier=tier,
        seed=int(seed),
        level=level,
        coverage=coverage,
        assumptions=assumptions,
        wall_s=round(float(wall_s), 3),
        violations=int(violations),
    )
    # runs against a scratch copy (mutant testing, VERIF_REPO set) must never overwrite real evidence
    d = os.path.join(env.VERIF_DIR, "evidence" if env.REPO == "/repo" else "evidence_scratch")
    os.makedirs(d, exist_ok=True)
    path = os.path.join(d, pid + ".json")
    tmp = path + ".tmp"
    with open(tmp, "w") as fh:
        json.dump(body, fh, indent=1, sort_keys=True)
        fh.write("\n")
    os.replace(tmp, path)
    _validate(path)
    return path


def _validate(path):
    vt = shutil.which("python3-vt")
    if not vt or not os.path.exists(SCHEMA):
        return
    code = (
        "import json,sys,jsonschema;"
        "jsonschema.validate(json.load(open(sys.argv[1])),json.load(open(sys.argv[2])))"
    )
    try:
        r = subprocess.run([vt, "-c", code, path, SCHEMA], capture_output=True, text=True, timeout=60)
    except Exception:
        return
    if r.returncode != 0:
        print("MACHINERY-WARNING: evidence file does not validate:", r.stderr.strip()[-400:])
