import hashlib
import signal


class CaseTimeout(BaseException):
    pass


def attempt(fn):
    """Run one implementation call.  ('ok', value) or ('raised', 'ExcType: message')."""
    try:
        return "ok", fn()
    except Exception as e:  # noqa - any exception type is an observable outcome
        return "raised", f"{type(e).__name__}: {str(e)[:300]}"


def short(d, n=40):
    """shorten a label->value dict for reports"""
    if isinstance(d, dict):
        out = {}
        for k in list(d)[:n]:
            out["|".join(map(str, k)) if isinstance(k, tuple) else str(k)] = d[k]
        if len(d) > n:
            out["..."] = f"{len(d) - n} more"
        return out
    return d


def digest(*parts):
    h = hashlib.sha1()
    for p in parts:
        if isinstance(p, bytes):
            h.update(p)
        else:
            h.update(repr(p).encode())
        h.update(b"|")
    return h.hexdigest()[:16]
