import argparse
import importlib
import os
import sys

from . import env


def main():
    env.bootstrap()
    ap = argparse.ArgumentParser()
    ap.add_argument("property")
    ap.add_argument("--tier", default=os.environ.get("VERIF_TIER", "quick"), choices=["quick", "thorough"])
    ap.add_argument("--replay", default=None)
    a = ap.parse_args()
    from . import engine

    mod = importlib.import_module("checks." + a.property.lower())
    sys.exit(engine.run(mod, a.tier, a.replay))


if __name__ == "__main__":
    main()
