"""Process environment for every check: where flodym comes from, determinism, quiet logging.

flodym is imported from the *current working tree* of the repository (default /repo;
VERIF_REPO overrides the path - used only by the mutant runner on scratch copies).
There is no build step: the package is pure Python, so "rebuild from the working tree"
means "import the sources as they are now" (byte-code caches are disabled).
"""

import os
import sys

VERIF_DIR = os.path.dirname(os.path.dirname(os.path.abspath(__file__)))
REPO = os.path.abspath(os.environ.get("VERIF_REPO", "/repo"))
GUARD = "FLODYM_VERIF"


def bootstrap():
    """Re-exec once with a fixed hash seed; put the repo first on sys.path."""
    if os.environ.get("PYTHONHASHSEED") != "0" or os.environ.get("_MC_BOOT") != "1":
        env = dict(os.environ)
        env["PYTHONHASHSEED"] = "0"
        env["_MC_BOOT"] = "1"
        env["PYTHONDONTWRITEBYTECODE"] = "1"
        env["MPLBACKEND"] = "Agg"
        env["OMP_NUM_THREADS"] = "1"
        env["OPENBLAS_NUM_THREADS"] = "1"
        env["MKL_NUM_THREADS"] = "1"
        env[GUARD] = "1"
        os.execve(sys.executable, [sys.executable, "-B", "-m", "mc.main"] + sys.argv[1:], env)
    sys.dont_write_bytecode = True
    if VERIF_DIR not in sys.path:
        sys.path.insert(0, VERIF_DIR)
    sys.path.insert(0, REPO)
    import warnings

    warnings.filterwarnings("ignore")
    import logging

    logging.getLogger().setLevel(logging.WARNING)
    logging.getLogger().addHandler(logging.NullHandler())  # keep flodym's warnings off stderr
    import flodym

    here = os.path.dirname(os.path.abspath(flodym.__file__))
    if not here.startswith(REPO + os.sep):
        raise SystemExit(f"machinery error: flodym imported from {here}, expected under {REPO}")
    return flodym


def seed():
    try:
        return int(os.environ.get("VERIF_SEED", "0"))
    except ValueError:
        return 0


def n_workers():
    try:
        return max(1, int(os.environ.get("VERIF_WORKERS", str(os.cpu_count() or 4))))
    except ValueError:
        return 4
