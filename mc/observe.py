"""The only place where implementation objects are read.

FlodymArray -> model array (labels -> float) through *basic integer indexing* of `values`
and the items of `dims`; DimensionSet -> list of (letter, name, items).
"""

import itertools

import numpy as np

from .refmodel import MArr


def dimset(ds):
    return [(d.letter, d.name, tuple(d.items)) for d in ds]


def arr(a):
    """Observe a FlodymArray.  Raises AssertionError (reported as a violation by callers that
    guard it) if the shape invariant is broken, because then labels are undefined."""
    dl = dimset(a.dims)
    v = a.values
    if not isinstance(v, np.ndarray):
        raise AssertionError(f"values is {type(v).__name__}, not ndarray")
    shape = tuple(len(it) for _, _, it in dl)
    if tuple(v.shape) != shape:
        raise AssertionError(f"values.shape {tuple(v.shape)} != dims shape {shape}")
    data = {}
    for idx in itertools.product(*[range(n) for n in shape]):
        lab = tuple(dl[k][2][i] for k, i in enumerate(idx))
        data[lab] = float(v[idx])
    return MArr(tuple(l for l, _, _ in dl), {l: it for l, _, it in dl}, data, {l: n for l, n, _ in dl})


def nd_by_label(v, dims_items):
    """ndarray + list of item tuples -> dict label tuple -> float"""
    shape = tuple(len(it) for it in dims_items)
    assert tuple(v.shape) == shape, (v.shape, shape)
    out = {}
    for idx in itertools.product(*[range(n) for n in shape]):
        out[tuple(dims_items[k][i] for k, i in enumerate(idx))] = float(v[idx])
    return out
