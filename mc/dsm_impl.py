"""Builders for the implementation side of the DSM checks (flodym objects) + observation helpers."""

import itertools

import numpy as np

from . import dsm

EXTRA_NAMES = {"p": "Product", "q": "Quality", "r": "Region"}


_DECOYED = set()


def decoy_grid_prelude(grid):
    """once per process and grid: a stock over a DECOY time dimension - same name, letter, number of items, first and
    last item, but the gaps in reverse order - is built and computed first (nothing may be remembered per
    'time dimension that looks the same')"""
    g = tuple(grid)
    if g in _DECOYED or len(g) < 4:
        return
    _DECOYED.add(g)
    gaps = [b - a for a, b in zip(g[:-1], g[1:])]
    if gaps == gaps[::-1]:
        return
    dg = [g[0]]
    for d in reversed(gaps):
        dg.append(dg[-1] + d)
    try:
        import flodym

        dims = make_dims(tuple(dg), [], _decoy=True)
        s = flodym.SimpleFlowDrivenStock(dims=dims)
        s.inflow.values[...] = 2.0
        s.outflow.values[...] = 1.0
        s.compute()
        lm = flodym.NormalLifetime(dims=dims, mean=2.0, std=1.0)
        d = flodym.InflowDrivenDSM(dims=dims, lifetime_model=lm)
        d.inflow.values[...] = 1.0
        d.compute()
    except Exception:
        pass


def make_dims(grid, extra, time_letter="t", dtype=int, _decoy=False):
    """extra: list of (letter, n_items).  Time first."""
    from flodym import Dimension, DimensionSet

    if not _decoy:
        decoy_grid_prelude(grid)

    if any(float(x) != int(x) for x in grid):  # sub-annual grid: float time items
        dtype = float
        grid = [float(x) for x in grid]

    dl = [Dimension(name="Time", letter=time_letter, items=list(grid), dtype=dtype)]
    for l, n in extra:
        dl.append(Dimension(name=EXTRA_NAMES[l], letter=l, items=[f"{l}{i+1}" for i in range(n)]))
    return DimensionSet(dim_list=dl)


def labels(extra):
    return list(itertools.product(*[range(n) for _, n in extra]))


def varies_of(shape, extra):
    """'scalar' or a string of letters -> list of positions (-1 = time, k = k-th extra dim)"""
    if shape == "scalar":
        return []
    letters = [l for l, _ in extra]
    return [-1 if ch == "t" else (-2 if ch == "T" else letters.index(ch)) for ch in shape]  # "T": time, alternating long- and short-lived cohorts


def prm_fn(base, shapes, extra):
    var = {nm: varies_of(shapes.get(nm, "scalar"), extra) for nm in base}

    def fn(name, cidx, lab):
        return dsm.param_value(base[name], name, cidx, lab, var[name])

    return fn


def make_param(dims, name, base, shape, extra, n_t):
    """scalar -> float; letters -> FlodymArray over those dims in that storage order"""
    from flodym import FlodymArray

    if shape == "scalar":
        return base[name]
    var = varies_of(shape, extra)
    sub = dims.get_subset(tuple(shape.lower() if False else shape.replace("T", "t")))
    v = np.zeros(sub.shape)
    sizes = [n_t if ch in "tT" else dict(extra)[ch] for ch in shape]
    nlab = len(extra)
    for idx in itertools.product(*[range(s) for s in sizes]):
        cidx = 0
        lab = [0] * nlab
        for ch, i in zip(shape, idx):
            if ch in "tT":
                cidx = i
            else:
                lab[[l for l, _ in extra].index(ch)] = i
        v[idx] = dsm.param_value(base[name], name, cidx, tuple(lab), var)
    return FlodymArray(dims=sub, values=v)


def make_lifetime(dist, dims, base, shapes, extra, inflow_at="middle", n_pts=1, via="ctor"):
    import flodym

    cls = getattr(flodym, dist)
    n_t = dims[0].len
    prms = {nm: make_param(dims, nm, base, shapes.get(nm, "scalar"), extra, n_t) for nm in base}
    if via == "ctor":
        return cls(dims=dims, inflow_at=inflow_at, n_pts_per_interval=n_pts, **prms)
    if via == "attrs":  # the inflow instant / number of points are assigned after construction, before any table is read
        lm = cls(dims=dims, **prms)
        lm.inflow_at = inflow_at
        lm.n_pts_per_interval = n_pts
        return lm
    if via == "copy-reparam":  # shallow copies of the model (scenario variants) were given other parameters
        import copy

        lm = cls(dims=dims, inflow_at=inflow_at, n_pts_per_interval=n_pts, **prms)
        for k, c in enumerate((lm.model_copy(), copy.copy(lm))):
            c.set_prms(**{nm: v + 0.5 * (k + 1) for nm, v in prms.items()})
            _ = c.sf
        return lm
    if via == "nudge":  # the tables were computed for parameters that differ from the final ones by a relative 2**-20
        lm = cls(dims=dims, inflow_at=inflow_at, n_pts_per_interval=n_pts)
        lm.set_prms(**{nm: v * (1.0 + 2.0 ** -20) for nm, v in prms.items()})
        _ = lm.sf
        _ = lm.pdf
        lm.set_prms(**prms)
        return lm
    if via == "used":  # the model was used by stocks (stock-driven with the manual solver, inflow-driven) before
        import flodym as _f

        lm = cls(dims=dims, inflow_at=inflow_at, n_pts_per_interval=n_pts, **prms)
        with np.errstate(all="ignore"):
            for scls, kw in ((_f.StockDrivenDSM, dict(solver="manual")), (_f.InflowDrivenDSM, {})):
                try:
                    st = scls(dims=dims, lifetime_model=lm, **kw)
                    (st.stock if scls is _f.StockDrivenDSM else st.inflow).values[...] = 1.0 + np.arange(n_t).reshape((n_t,) + (1,) * (len(dims.shape) - 1))
                    st.compute()
                except Exception:
                    pass
        return lm
    lm = cls(dims=dims, inflow_at=inflow_at, n_pts_per_interval=n_pts)
    if via == "positional":  # set_prms(mean, std) / set_prms(weibull_shape, weibull_scale): the documented order
        lm.set_prms(*[prms[nm] for nm in base])
        return lm
    if via == "reparam":
        # the model has a past: other parameters were set and both tables were read before
        other = {nm: (v + 0.75 if not hasattr(v, "values") else v + 0.75) for nm, v in prms.items()}
        lm.set_prms(**other)
        _ = lm.sf
        _ = lm.pdf
    lm.set_prms(**prms)
    return lm


def table_from_nd(a, extra):
    """ndarray of shape (n_t, n_t, *extra) -> dict (t, c, label idx tuple) -> float"""
    out = {}
    n = a.shape[0]
    exp = (n, n) + tuple(k for _, k in extra)
    if tuple(a.shape) != exp:
        raise AssertionError(f"table shape {a.shape}, expected {exp}")
    for t in range(n):
        for c in range(n):
            for lab in labels(extra):
                out[(t, c, lab)] = float(a[(t, c) + lab])
    return out


def series_from_nd(a, extra):
    out = {}
    n = a.shape[0]
    exp = (n,) + tuple(k for _, k in extra)
    if tuple(a.shape) != exp:
        raise AssertionError(f"array shape {a.shape}, expected {exp}")
    for t in range(n):
        for lab in labels(extra):
            out[(t, lab)] = float(a[(t,) + lab])
    return out


def fill(arr, series, extra):
    """write a dict (t, label) -> value into a FlodymArray's values (in place, by index)"""
    n = arr.values.shape[0]
    for t in range(n):
        for lab in labels(extra):
            arr.values[(t,) + lab] = series[(t, lab)]


# ---- running stocks ------------------------------------------------------------------------------

KINDS = ("inflow", "stock-manual", "stock-lapack")


def driver_series(name, n, extra):
    """named deterministic driver: dict (t, label) -> float"""
    labs = labels(extra)
    out = {}
    factor = 1.0
    whole = False
    if name.endswith("#int"):  # whole numbers (the caller stores them in an integer array)
        name, whole = name[:-4], True
    if "@" in name:  # exact power-of-two rescaling: magnitudes far from 1
        name, mag = name.split("@")
        factor = {"tiny": 2.0 ** -40, "huge": 2.0 ** 30}[mag]
    parts = name.split(":")
    for t in range(n):
        for li, lab in enumerate(labs):
            if parts[0] == "imp":
                v = 1.0 if (t == int(parts[1]) and li == int(parts[2])) else 0.0
            elif parts[0] == "pos":
                v = 1.0 + ((3 * t + 5 * li) % 7) + 0.5 * (li % 2)
            elif parts[0] == "pos2":
                v = 2.0 + ((5 * t + 3 * li) % 4) * 1.5
            elif parts[0] == "mixed":
                v = ((3 * t + 5 * li) % 7) - 2.5
            elif parts[0] == "inc":
                v = 5.0 + 3.0 * t + li
            elif parts[0] == "dec":
                v = 40.0 - 6.0 * t - li
            elif parts[0] == "hump":
                v = 10.0 + 4.0 * min(t, n - 1 - t) + 2 * li
            elif parts[0] == "tail0":  # positive, then exactly zero in the trailing steps
                v = (6.0 + li - t) if t < n - 2 else 0.0
            elif parts[0] == "mid0":  # exactly zero in a middle year after a positive one
                v = 0.0 if t == 1 else 4.0 + t + li
            else:
                raise ValueError(name)
            out[(t, lab)] = float(round(v)) if whole else v * factor
    return out


def run_stock(kind, grid, lt, quad, extra, shapes, driver, via="ctor", int_dtype=False, pass_arrays=False, recompute=False, lm=None, shadow=False):
    """Build and compute one dynamic stock model.  `driver`: dict (t,label)->value (inflow for
    'inflow', prescribed stock for 'stock-*').  Returns dict of observed tables + the object."""
    import flodym

    dist, base = lt
    dims = make_dims(grid, extra)
    if lm is None:  # otherwise: a lifetime model object that is shared with other stocks (same dims, same parameters)
        lm = make_lifetime(dist, dims, base, shapes, extra, quad[0], quad[1], via)
    n = len(grid)
    shape = (n,) + tuple(k for _, k in extra)
    dv = np.zeros(shape, dtype=np.int64 if int_dtype else float)
    for (t, lab), v in driver.items():
        dv[(t,) + lab] = v
    kw = {}
    if kind == "inflow":
        cls = flodym.InflowDrivenDSM
        which = "inflow"
    else:
        cls = flodym.StockDrivenDSM
        which = "stock"
        kw["solver"] = kind.split("-")[1]
    if pass_arrays == "F":
        # all three arrays are handed in, each holding a Fortran-ordered (non C-contiguous) buffer
        for nm in ("stock", "inflow", "outflow"):
            kw[nm] = flodym.StockArray(dims=dims, values=np.asfortranarray(dv.copy() if nm == which else np.zeros(shape)))
        s = cls(dims=dims, lifetime_model=lm, **kw)
    elif pass_arrays or int_dtype:
        kw[which] = flodym.StockArray(dims=dims, values=dv.copy())
        s = cls(dims=dims, lifetime_model=lm, **kw)
    else:
        s = cls(dims=dims, lifetime_model=lm, **kw)
        getattr(s, which).values[...] = dv
    if recompute:
        # the stock has a past: it was computed with other parameters and another driver before
        prms_now = {nm: getattr(lm, nm).copy() for nm in base}
        lm.set_prms(**{nm: v + 0.75 for nm, v in prms_now.items()})
        getattr(s, which).values[...] = dv * 0.5 + 1.0
        try:
            s.compute()
            s.get_outflow_by_cohort()  # (the results of the earlier computation were looked at)
            s.get_stock_by_cohort()
        except Exception:
            pass
        if recompute == "first-only":  # only the FIRST parameter goes back to its value, the others were not changed at all
            first = list(base)[0]
            lm.set_prms(**{nm: (prms_now[nm] if nm == first else prms_now[nm] + 0.75) for nm in base})
            try:
                s.compute()
            except Exception:
                pass
        lm.set_prms(**prms_now)
        getattr(s, which).values[...] = dv
    s.compute()
    if shadow:
        # shallow copies of the computed stock (scenario variants) get their OWN driver / result arrays with other
        # values and are computed; the original must keep its results and cohort tables
        import copy

        for k, mk in enumerate((lambda: copy.copy(s), lambda: s.model_copy())):
            try:
                c = mk()
                for nm in ("stock", "inflow", "outflow"):
                    setattr(c, nm, flodym.StockArray(dims=dims, values=np.array(getattr(s, nm).values, dtype=float) * (3.0 + k) + 1.0))
                c.compute()
            except Exception:
                pass
    out = dict(
        obj=s,
        lm=lm,
        stock=series_from_nd(s.stock.values, extra),
        inflow=series_from_nd(s.inflow.values, extra),
        outflow=series_from_nd(s.outflow.values, extra),
        sbc=table_from_nd(s.get_stock_by_cohort(), extra),
        obc=table_from_nd(s.get_outflow_by_cohort(), extra),
        driver_after=series_from_nd(getattr(s, which).values, extra),
    )
    return out


def scale_of(res, grid):
    dt = dsm.dts(grid)
    m = 0.0
    for k in ("stock", "inflow", "outflow"):
        for (t, lab), v in res[k].items():
            f = abs(v) * (dt[t] if k != "stock" else 1.0)
            if f > m and f == f:
                m = f
    return m if m > 0 else 1.0
