"""Builders for the implementation side of the DSM checks (flodym objects) + observation helpers."""

import itertools

import numpy as np

from . import dsm

EXTRA_NAMES = {"p": "Product", "q": "Quality", "r": "Region"}


def make_dims(grid, extra, time_letter="t", dtype=int):
    """extra: list of (letter, n_items).  Time first."""
    from flodym import Dimension, DimensionSet

    dl = [Dimension(name="Time", letter=time_letter, items=list(grid), dtype=dtype)]
    for l, n in extra:
        dl.append(Dimension(name=EXTRA_NAMES[l], letter=l, items=[f"{l}{i+1}" for i in range(n)]))
    return DimensionSet(dim_list=dl)


def labels(extra):
    return list(itertools.product(*[range(n) for _, n in extra]))


def varies_of(shape, extra):
    """'scalar' or a string of letters -> list of positions (-1 = time, k = k-th extra dim)"""
    if shape == "scalar":
        return []
    letters = [l for l, _ in extra]
    return [-1 if ch == "t" else letters.index(ch) for ch in shape]


def prm_fn(base, shapes, extra):
    var = {nm: varies_of(shapes.get(nm, "scalar"), extra) for nm in base}

    def fn(name, cidx, lab):
        return dsm.param_value(base[name], name, cidx, lab, var[name])

    return fn


def make_param(dims, name, base, shape, extra, n_t):
    """scalar -> float; letters -> FlodymArray over those dims in that storage order"""
    from flodym import FlodymArray

    if shape == "scalar":
        return base[name]
    var = varies_of(shape, extra)
    sub = dims.get_subset(tuple(shape))
    v = np.zeros(sub.shape)
    sizes = [n_t if ch == "t" else dict(extra)[ch] for ch in shape]
    nlab = len(extra)
    for idx in itertools.product(*[range(s) for s in sizes]):
        cidx = 0
        lab = [0] * nlab
        for ch, i in zip(shape, idx):
            if ch == "t":
                cidx = i
            else:
                lab[[l for l, _ in extra].index(ch)] = i
        v[idx] = dsm.param_value(base[name], name, cidx, tuple(lab), var)
    return FlodymArray(dims=sub, values=v)


def make_lifetime(dist, dims, base, shapes, extra, inflow_at="middle", n_pts=1, via="ctor"):
    import flodym

    cls = getattr(flodym, dist)
    n_t = dims[0].len
    prms = {nm: make_param(dims, nm, base, shapes.get(nm, "scalar"), extra, n_t) for nm in base}
    if via == "ctor":
        return cls(dims=dims, inflow_at=inflow_at, n_pts_per_interval=n_pts, **prms)
    lm = cls(dims=dims, inflow_at=inflow_at, n_pts_per_interval=n_pts)
    lm.set_prms(**prms)
    return lm


def table_from_nd(a, extra):
    """ndarray of shape (n_t, n_t, *extra) -> dict (t, c, label idx tuple) -> float"""
    out = {}
    n = a.shape[0]
    exp = (n, n) + tuple(k for _, k in extra)
    if tuple(a.shape) != exp:
        raise AssertionError(f"table shape {a.shape}, expected {exp}")
    for t in range(n):
        for c in range(n):
            for lab in labels(extra):
                out[(t, c, lab)] = float(a[(t, c) + lab])
    return out


def series_from_nd(a, extra):
    out = {}
    n = a.shape[0]
    exp = (n,) + tuple(k for _, k in extra)
    if tuple(a.shape) != exp:
        raise AssertionError(f"array shape {a.shape}, expected {exp}")
    for t in range(n):
        for lab in labels(extra):
            out[(t, lab)] = float(a[(t,) + lab])
    return out


def fill(arr, series, extra):
    """write a dict (t, label) -> value into a FlodymArray's values (in place, by index)"""
    n = arr.values.shape[0]
    for t in range(n):
        for lab in labels(extra):
            arr.values[(t,) + lab] = series[(t, lab)]
