"""Reference model and shared spaces for the dynamic-stock properties (C03, C08, C09, C10, C16, C17).

Everything here is scalar Python (math.erf / erfc / exp / log): closed-form survival functions,
the documented time-interval rule, an independently computed Gauss-Lobatto rule, and the scalar
DSM recurrences.  No numpy, no scipy.
"""

import itertools
import math
from decimal import Decimal, getcontext

# ---- time grids ---------------------------------------------------------------------------------


# uneven grids whose FIRST (or last) gap equals the mean gap - a grid that "looks regular" to a test that
# only compares the first gap with the average - and grids with other gap sizes than the alphabet below
SPECIAL_GRIDS = [(2000, 2010, 2015, 2030), (2000, 2003, 2004, 2009), (2000, 2002, 2003, 2006), (2000, 2001, 2006, 2009), (2000, 2004, 2005, 2009, 2020)]


def grids(n_items=(3, 4, 5), steps=(1, 2, 5), origin=2000):
    """all strictly increasing integer grids with the given step alphabet (+ the special grids)"""
    out = list(SPECIAL_GRIDS) + list(SUBANNUAL_GRIDS)
    for n in n_items:
        for k, st in enumerate(itertools.product(steps, repeat=n - 1)):
            if n >= 5 and k % 3:
                continue  # five items: every third step pattern (all patterns for three and four items)
            g = [origin]
            for s in st:
                g.append(g[-1] + s)
            out.append(tuple(g))
    return out


def grid_kind(g):
    st = {b - a for a, b in zip(g[:-1], g[1:])}
    if st == {1}:
        return "unit"
    return "constant" if len(st) == 1 else "uneven"


QUICK_GRIDS = [
    (2000, 2001, 2002), (2000, 2001, 2002, 2003, 2004), (2000, 2001, 2002, 2003),
    (2000, 2002, 2004), (2000, 2005, 2010, 2015), (2000, 2002, 2004, 2006, 2008),
    (2000, 2001, 2003), (2000, 2005, 2006), (2000, 2001, 2003, 2008), (2000, 2005, 2007, 2008),
    (2000, 2001, 2003, 2008, 2009), (2000, 2005, 2006, 2008, 2013), (2000, 2002, 2003, 2008, 2010),
    (2000, 2010, 2015, 2030), (2000, 2003, 2004, 2009),
    # sub-annual grids (time items are floats, every interval shorter than or around one year)
    (2000, 2000.5, 2001, 2001.5), (2000, 2000.25, 2001, 2001.5, 2003.5),
    (2000, 2000.5, 2001.5, 2003),  # uneven, non-integer, and yet last - first == number of items - 1
]
SUBANNUAL_GRIDS = [(2000, 2000.5, 2001.5, 2003), (2000, 2000.5, 2001, 2002, 2003.5, 2005), (2000, 2000.5, 2001, 2001.5), (2000, 2000.25, 2001, 2001.5, 2003.5), (2000, 2000.5, 2001), (2000.75, 2001, 2001.125, 2001.5)]


def bounds(g):
    """documented rule (howto 06): interval bounds at the midpoints between consecutive items, the
    first and last interval mirroring their neighbour"""
    mid = [(a + b) / 2.0 for a, b in zip(g[:-1], g[1:])]
    return [mid[0] - (mid[1] - mid[0])] + mid + [mid[-1] + (mid[-1] - mid[-2])]


def dts(g):
    b = bounds(g)
    return [b[i + 1] - b[i] for i in range(len(g))]


# ---- Gauss-Lobatto rule, computed independently (50-digit decimal Newton on P'_{n-1}) --------------

_GL_CACHE = {}


def gauss_lobatto(n):
    """nodes and weights on [-1, 1] for the n-point rule (n >= 2), as floats"""
    if n in _GL_CACHE:
        return _GL_CACHE[n]
    getcontext().prec = 60
    m = n - 1

    def legendre(x):
        # returns P_m(x), P'_m(x) via the three-term recurrence and the derivative identity
        p0, p1 = Decimal(1), x
        if m == 0:
            return p0, Decimal(0)
        for k in range(2, m + 1):
            p0, p1 = p1, ((2 * k - 1) * x * p1 - (k - 1) * p0) / k
        if x * x == 1:
            return p1, None
        dp = m * (x * p1 - p0) / (x * x - 1)
        return p1, dp

    nodes = [Decimal(-1)]
    for k in range(1, m):
        x = Decimal(-math.cos(math.pi * k / m))
        for _ in range(100):
            p, dp = legendre(x)
            ddp = (2 * x * dp - m * (m + 1) * p) / (1 - x * x)
            dx = dp / ddp
            x = x - dx
            if abs(dx) < Decimal(10) ** -50:
                break
        nodes.append(x)
    nodes.append(Decimal(1))
    weights = []
    for x in nodes:
        p, _ = legendre(x)
        weights.append(Decimal(2) / (n * (n - 1) * p * p))
    res = ([float(x) for x in nodes], [float(w) for w in weights])
    _GL_CACHE[n] = res
    return res


def quad_rule(inflow_at, n_pts):
    """points eta in [0,1] (fraction of the cohort's interval) and weights"""
    if n_pts > 1:
        x, w = gauss_lobatto(n_pts)
        return [(xi + 1.0) / 2.0 for xi in x], [wi / 2.0 for wi in w]
    return [{"start": 0.0, "middle": 0.5, "end": 1.0}[inflow_at]], [1.0]


QUADS = [("start", 1), ("middle", 1), ("end", 1)] + [("middle", n) for n in range(2, 11)] + [("start", 3), ("end", 2)]

# ---- closed-form survival functions -------------------------------------------------------------

SQ2 = math.sqrt(2.0)


class NearJump(Exception):
    pass


def sf_fixed(age, mean):
    if age != mean and abs(age - mean) < 1e-9:
        raise NearJump()
    return 1.0 if age < mean else 0.0


def sf_normal(age, mean, std):
    return 0.5 * math.erfc((age - mean) / (std * SQ2))


def sf_folded(age, mean, std):
    if age < 0:
        return 1.0
    c = mean / std
    x = age / std
    # 1 - cdf, written with erfc for accuracy in the tail
    return 0.5 * (math.erfc((x + c) / SQ2) + math.erfc((x - c) / SQ2))


def sf_lognormal(age, mean, std):
    if age <= 0:
        return 1.0
    s2 = math.log(1.0 + (std * std) / (mean * mean))
    mu = math.log(mean * mean / math.sqrt(mean * mean + std * std))
    return 0.5 * math.erfc((math.log(age) - mu) / (math.sqrt(s2) * SQ2))


def sf_weibull(age, shape, scale):
    if age <= 0:
        return 1.0
    return math.exp(-((age / scale) ** shape))


DISTS = {
    "FixedLifetime": (("mean",), sf_fixed),
    "NormalLifetime": (("mean", "std"), sf_normal),
    "FoldedNormalLifetime": (("mean", "std"), sf_folded),
    "LogNormalLifetime": (("mean", "std"), sf_lognormal),
    "WeibullLifetime": (("weibull_shape", "weibull_scale"), sf_weibull),
}

# base parameter sets (scalars); per-label / per-cohort variation is added by param_value()
LT = [
    ("FixedLifetime", dict(mean=0.7)),
    ("FixedLifetime", dict(mean=2.3)),
    ("FixedLifetime", dict(mean=7.9)),
    ("FixedLifetime", dict(mean=2.0)),   # on the jump for integer ages
    ("FixedLifetime", dict(mean=1.5)),   # on the jump for half-integer ages
    ("NormalLifetime", dict(mean=3.0, std=1.0)),
    ("NormalLifetime", dict(mean=8.0, std=2.5)),
    ("FoldedNormalLifetime", dict(mean=1.0, std=2.0)),
    ("FoldedNormalLifetime", dict(mean=6.0, std=2.0)),
    ("LogNormalLifetime", dict(mean=2.0, std=1.0)),
    ("LogNormalLifetime", dict(mean=8.0, std=3.0)),
    ("WeibullLifetime", dict(weibull_shape=0.9, weibull_scale=2.0)),
    ("WeibullLifetime", dict(weibull_shape=2.2, weibull_scale=6.0)),
    ("LogNormalLifetime", dict(mean=0.9, std=0.3)),  # small but non-vanishing first-interval survival (4.6e-4) on 5-year steps
]


def param_value(base, name, cidx, lab_idx, varies):
    """value of parameter `name` for cohort index cidx and label indices lab_idx (tuple over extra
    dims) when the parameter array varies over the dims in `varies` (subset of 't' + extra letters,
    given as a list of positions: -1 = time, k = k-th extra dim)."""
    v = base
    for pos in varies:
        if pos == -2:  # NON-monotone over the cohorts: every other cohort is short-lived (a younger cohort can be gone while an older one is still there)
            v *= 1.0 if cidx % 2 == 0 else 0.3
        elif pos == -1:
            v += 0.25 * cidx
        else:
            v += (0.5 if pos == 0 else 0.125) * (1 + lab_idx[pos]) if name in ("mean", "weibull_scale") else (0.0625 * (pos + 1)) * (1 + lab_idx[pos])
    return v


def sf_table(grid, dist, prm_fn, inflow_at, n_pts, labels):
    """sf[t][c][label] for t >= c (else 0); prm_fn(name, cidx, label) -> float.
    Returns (table dict (t,c,label)->value, set of skipped keys near a jump)."""
    names, fn = DISTS[dist]
    b = bounds(grid)
    n = len(grid)
    etas, ws = quad_rule(inflow_at, n_pts)
    table, skipped = {}, set()
    for lab in labels:
        for c in range(n):
            prms = [prm_fn(nm, c, lab) for nm in names]
            for t in range(n):
                if t < c:
                    table[(t, c, lab)] = 0.0
                    continue
                s = 0.0
                try:
                    for eta, w in zip(etas, ws):
                        t_in = eta * b[c + 1] + (1 - eta) * b[c]
                        age = b[t + 1] - t_in
                        s += w * fn(age, *prms)
                except NearJump:
                    skipped.add((t, c, lab))
                    s = None
                table[(t, c, lab)] = s
    return table, skipped


def pdf_table(sf, n, labels):
    pdf = {}
    for lab in labels:
        for c in range(n):
            for t in range(n):
                if t < c:
                    pdf[(t, c, lab)] = 0.0
                elif t == c:
                    v = sf[(t, c, lab)]
                    pdf[(t, c, lab)] = None if v is None else 1.0 - v
                else:
                    a, bb = sf[(t - 1, c, lab)], sf[(t, c, lab)]
                    pdf[(t, c, lab)] = None if (a is None or bb is None) else a - bb
    return pdf


# ---- scalar DSM recurrences ---------------------------------------------------------------------


def inflow_driven(grid, sf, inflow, labels):
    """inflow[(t,label)] annual rates -> dict with stock, outflow, stock_by_cohort, outflow_by_cohort"""
    dt = dts(grid)
    n = len(grid)
    sbc, obc, stock, outflow = {}, {}, {}, {}
    for lab in labels:
        for t in range(n):
            for c in range(n):
                sbc[(t, c, lab)] = inflow[(c, lab)] * dt[c] * sf[(t, c, lab)] if c <= t else 0.0
            stock[(t, lab)] = math.fsum(sbc[(t, c, lab)] for c in range(n))
        for t in range(n):
            for c in range(n):
                if c > t:
                    obc[(t, c, lab)] = 0.0
                else:
                    prev = inflow[(c, lab)] * dt[c] if t == c else sbc[(t - 1, c, lab)]
                    obc[(t, c, lab)] = (prev - sbc[(t, c, lab)]) / dt[t]
            outflow[(t, lab)] = math.fsum(obc[(t, c, lab)] for c in range(n))
    return dict(stock=stock, outflow=outflow, stock_by_cohort=sbc, outflow_by_cohort=obc)


def stock_driven_inflow(grid, sf, stock, labels):
    """forward substitution: inflow annual rates from a prescribed stock"""
    dt = dts(grid)
    n = len(grid)
    inflow = {}
    for lab in labels:
        whole = []
        for t in range(n):
            s = stock[(t, lab)] - math.fsum(sf[(t, c, lab)] * whole[c] for c in range(t))
            whole.append(s / sf[(t, t, lab)])
        for t in range(n):
            inflow[(t, lab)] = whole[t] / dt[t]
    return inflow
