"""E2: explicit-state breadth-first search over operation histories on live implementation objects.

A state is identified by the history that reaches it; it is (re)built by replaying that history on
fresh implementation objects together with the lockstep reference model (live pydantic/numpy objects
do not copy reliably, replay is cheap at these depths).  Every transition executes the real method;
the invariant / model comparison is evaluated after every transition; states are de-duplicated by a
canonical key supplied by the check (exact unless stated otherwise).  BFS order => the first
counterexample is a shortest one.
"""


def explore(build, ops, apply_op, canon, depth, prefix=(), max_fails=20):
    """build() -> fresh state;  apply_op(state, op, check) -> (outcome str, fail dict | None);
    canon(state) -> hashable.  `prefix` is a history applied (with checks) before the search starts
    (used to shard the search tree over workers)."""
    res = dict(states=0, transitions=0, traces=0, outcomes={}, fails=[], max_depth=0)

    def replay(hist, check_last):
        st = build()
        out = None
        for i, op in enumerate(hist):
            last = i == len(hist) - 1
            out = apply_op(st, op, check_last and last)
        return st, out

    st = build()
    seen = set()
    hist0 = []
    for op in prefix:
        oc, f = apply_op(st, op, True)
        res["transitions"] += 1
        res["traces"] += 1
        res["outcomes"][oc] = res["outcomes"].get(oc, 0) + 1
        hist0.append(op)
        if f:
            f.setdefault("case", {})["history"] = list(hist0)
            res["fails"].append(f)
            return res
    seen.add(canon(st))
    frontier = [list(hist0)]
    for d in range(depth - len(prefix)):
        nxt = []
        for hist in frontier:
            for op in ops:
                st, _ = replay(hist, False)
                oc, f = apply_op(st, op, True)
                res["transitions"] += 1
                res["traces"] += 1
                res["outcomes"][oc] = res["outcomes"].get(oc, 0) + 1
                if f:
                    if len(res["fails"]) < max_fails:
                        f.setdefault("case", {})["history"] = hist + [op]
                        res["fails"].append(f)
                    continue  # do not extend a violating history
                k = canon(st)
                if k not in seen:
                    seen.add(k)
                    nxt.append(hist + [op])
        frontier = nxt
        if nxt:
            res["max_depth"] = len(prefix) + d + 1
    res["states"] = len(seen)
    return res
