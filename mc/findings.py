"""Matching of failing cases against the committed list of genuine defects.

known_findings.json is read, never written, at run time.  An entry

    {"id": ..., "property": "C11", "status": "known" | "fixed", "commit": ..., "what": ...,
     "match": {tag: value | [values], ...}}

matches a failure when status == "known", the property agrees and every tag named in `match`
has (one of) the given value(s) in the failure's `tags`.  Tags describe the *input class* of the
failing case (selector kinds, layout, grid kind ...), never the symptom, so a different way of
violating the same property is not covered.  `fixed` entries are documentation: they match nothing.
"""

import json
import os

from . import env

PATH = os.path.join(env.VERIF_DIR, "known_findings.json")


def load():
    if not os.path.exists(PATH):
        return []
    with open(PATH) as fh:
        return json.load(fh).get("findings", [])


def _matches(entry, fail):
    tags = fail.get("tags", {})
    for k, want in entry.get("match", {}).items():
        got = tags.get(k, None)
        if isinstance(want, list):
            if got not in want:
                return False
        elif got != want:
            return False
    return True


def split(pid, fails):
    entries = [e for e in load() if e.get("property") == pid and e.get("status") == "known"]
    buckets = {e["id"]: (e, []) for e in entries}
    unknown = []
    for f in fails:
        for e in entries:
            if _matches(e, f):
                buckets[e["id"]][1].append(f)
                break
        else:
            unknown.append(f)
    known = [(e, fl) for e, fl in buckets.values() if fl]
    return known, unknown
