"""Shared finite spaces: dimension universes, length patterns, arrangements, value alphabets."""

import itertools

import numpy as np

LETTERS = "abcde"
NAMES = {"a": "Alpha", "b": "Beta", "c": "Gamma", "d": "Delta", "e": "Epsi"}

# length patterns over (a,b,c,d,e): equal lengths are always present (a silent transposition is
# invisible otherwise); length-1 dimensions are present too.
PATTERNS = {
    "all2": (2, 2, 2, 2, 2),
    "all3": (3, 3, 3, 3, 3),
    "2323": (2, 3, 2, 3, 2),
    "1213": (1, 2, 1, 3, 2),
    "3122": (3, 1, 2, 2, 1),
    "big": (12, 33, 2, 5, 2),
}

# label families.  "std": a1, a2 ...  "tricky": labels whose CONTENT collides with other things an
# implementation might look at - items equal to the letters / names of other dimensions, items shared
# between dimensions, items that are prefixes of each other, the empty string, None-/bool-/nan-like
# strings, integers next to their string forms.  Index-aligned with "std" (item k of a dimension is
# item k in either family), at most 3 items per dimension.
TRICKY = {
    "a": ("b", "Beta", "ab"),
    "b": ("a", "b", "ab"),
    "c": ("", "c1", "c10"),
    "d": (1, 10, "1"),
    "e": ("None", "True", "nan"),
}


# numeric items that are NOT stored in ascending order (item order is storage order, never numeric order)
NUMERIC = {
    "a": (3, 1, 2),
    "b": (20, 30, 10),
    "c": (2.5, 0.5, 1.5),
    "d": (2020, 2010, 2000),
    "e": (7, 5, 6),
}


# items that are falsy in Python (0, "") next to ordinary ones
FALSY = {
    "a": (0, 5, 3),
    "b": ("", "b", "ab"),
    "c": ("c1", "c2", "c3"),
    "d": ("d1", "d2", "d3"),
    "e": ("e1", "e2", "e3"),
}


def items_for(pattern, letters=LETTERS, family="std"):
    lens = PATTERNS[pattern] if isinstance(pattern, str) else pattern
    if family == "falsy":
        return {l: tuple(FALSY[l][: lens[LETTERS.index(l)]]) for l in letters}
    if family == "numeric":
        return {l: tuple(NUMERIC[l][: lens[LETTERS.index(l)]]) for l in letters}
    if family == "tricky":
        return {l: tuple(TRICKY[l][: lens[LETTERS.index(l)]]) for l in letters}
    return {l: tuple(f"{l}{i+1}" for i in range(lens[LETTERS.index(l)])) for l in letters}


def arrangements(letters, max_len=None):
    """All ordered selections of distinct letters (storage orders of all subsets), simplest first."""
    letters = tuple(letters)
    n = len(letters) if max_len is None else min(max_len, len(letters))
    for k in range(n + 1):
        yield from itertools.permutations(letters, k)


def subsets(letters):
    letters = tuple(letters)
    for k in range(len(letters) + 1):
        yield from itertools.combinations(letters, k)


def make_dimension(letter, items, name=None, dtype=None):
    from flodym import Dimension

    return Dimension(name=name or NAMES.get(letter, letter.upper() * 2), letter=letter, items=list(items), dtype=dtype)


def make_dimset(letters, items):
    from flodym import DimensionSet

    return DimensionSet(dim_list=[make_dimension(l, items[l]) for l in letters])


# ---- value assignments ------------------------------------------------------------------


def pos_index(lab, letters, items):
    return tuple(items[l].index(it) for l, it in zip(letters, lab))


def val_pow2(slot=0):
    """distinct powers of two per entry (enumeration order of the label tuples): a marginal sum
    identifies exactly which entries were added.  Slot 0 / 1 use disjoint bit ranges, so x+y also
    tells the operands apart.  All partial sums stay below 2**53, so any summation order is exact:
    up to 26 entries every entry has its own bit; larger arrays reuse 20 bits cyclically."""

    def make(letters, items):
        labs = list(itertools.product(*[items[l] for l in letters]))
        span = 26 if len(labs) <= 26 else 20
        table = {lab: float(2 ** (slot * span + (n % span))) for n, lab in enumerate(labs)}
        return lambda lab: table[lab]

    return make


def scaled(maker, factor):
    """exact rescaling by a power of two (magnitudes far from 1: 2**-60, 2**40)"""

    def make(letters, items):
        f = maker(letters, items)
        return lambda lab: f(lab) * factor

    return make


def val_base(base=4, shift=0):
    """sum_k base**k * (1+index_k): positional code, distinct per entry, small integers."""

    def make(letters, items):
        def f(lab):
            s = 0
            for l, it in zip(letters, lab):
                s += (base ** LETTERS.index(l)) * (1 + items[l].index(it))
            return float(s + shift)

        return f

    return make


PRIMES_X = (2, 3, 5, 7, 11, 13, 17, 19, 23, 29, 31, 37, 41, 43, 47)
PRIMES_Y = (53, 59, 61, 67, 71, 73, 79, 83, 89, 97, 101, 103, 107, 109, 113)


def val_primes(primes):
    """product over dims of a prime that depends on (dim, item): x*y identifies the pair."""

    def make(letters, items):
        def f(lab):
            p = 1
            for l, it in zip(letters, lab):
                p *= primes[3 * LETTERS.index(l) + items[l].index(it)]
            return float(p)

        return f

    return make


SIGNED = (-2.0, -1.0, -0.5, 0.0, 0.5, 1.0, 2.0, 3.0)


def val_signed(rot=0):
    """cycles through the order/sign alphabet so that every ordered pair occurs somewhere"""

    def make(letters, items):
        table = {}
        for n, lab in enumerate(itertools.product(*[items[l] for l in letters])):
            table[lab] = SIGNED[(n * 3 + rot) % len(SIGNED)] if len(letters) else SIGNED[rot % 8]
        return lambda lab: table[lab]

    return make


SPECIAL = (float("nan"), 1.5, float("inf"), 0.0, -2.0, float("-inf"), -0.0, 3.0, 0.5)


def val_special(rot=0):
    """NaN, +-inf and +-0.0 among ordinary values"""

    def make(letters, items):
        table = {}
        for n, lab in enumerate(itertools.product(*[items[l] for l in letters])):
            table[lab] = SPECIAL[(n * 2 + rot) % len(SPECIAL)]
        return lambda lab: table[lab]

    return make


def val_zero():
    def make(letters, items):
        return lambda lab: 0.0

    return make


def val_halfpow(rot=0):
    """powers of two with small exponents (incl. negative): exact for * and /"""

    def make(letters, items):
        table = {}
        for n, lab in enumerate(itertools.product(*[items[l] for l in letters])):
            table[lab] = float(2.0 ** (((n + rot) % 7) - 3))
        return lambda lab: table[lab]

    return make


def ndarray_for(letters, items, fn, provenance="C"):
    """Build the ndarray of a model function in the given storage provenance."""
    shape = tuple(len(items[l]) for l in letters)
    v = np.zeros(shape)
    for idx in itertools.product(*[range(n) for n in shape]):
        v[idx] = fn(tuple(items[l][i] for l, i in zip(letters, idx)))
    if provenance == "Cint":  # integer dtype (legitimate: e.g. FlodymArray.full(dims, 2))
        return v.astype(np.int64)
    if provenance == "Cu8":  # narrow unsigned integers (counts): sums along a dimension exceed the dtype's range
        return v.astype(np.uint8)
    if provenance == "C" or not shape:
        return v
    if provenance == "F":
        return np.asfortranarray(v)
    if provenance == "view":  # non-contiguous view into a larger buffer
        big = np.zeros(tuple(2 * n + 1 for n in shape)) - 777.0
        sl = tuple(slice(1, 2 * n + 1, 2) for n in shape)
        big[sl] = v
        return big[sl]
    if provenance == "transposed":  # reversed-axes buffer, transposed back (negative-free strides perm)
        vt = np.ascontiguousarray(v.transpose(tuple(reversed(range(len(shape))))))
        return vt.transpose(tuple(reversed(range(len(shape)))))
    raise ValueError(provenance)


PROVENANCES = ("C", "F", "view", "transposed")


def flodym_array(letters, items, fn, provenance="C", cls=None, **kw):
    from flodym import FlodymArray

    cls = cls or FlodymArray
    ds = make_dimset(letters, items)
    v = ndarray_for(letters, items, fn, provenance)
    return cls(dims=ds, values=v, **kw)


GENESIS = ("ctor", "parameter", "flow", "stockarray", "deepcopy", "pickle", "copy", "model_copy", "cast_self", "getitem_all")


def regenesis(arr, kind):
    """the same array (same dims, same entries) obtained through another public route: as an instance of
    one of the subclasses, or as a copy / pickle round trip / trivial cast or slice of the original"""
    import copy
    import pickle

    import flodym

    if kind == "ctor":
        return arr
    if kind == "parameter":
        return flodym.Parameter(dims=arr.dims, values=arr.values, name="par")
    if kind == "stockarray":
        return flodym.StockArray(dims=arr.dims, values=arr.values, name="sto")
    if kind == "flow":
        p1, p2 = flodym.Process(name="sysenv", id=0), flodym.Process(name="use", id=1)
        return flodym.Flow(dims=arr.dims, values=arr.values, from_process=p1, to_process=p2, name="sysenv => use")
    if kind == "deepcopy":
        return copy.deepcopy(arr)
    if kind == "pickle":
        return pickle.loads(pickle.dumps(arr))
    if kind == "copy":
        return arr.copy()
    if kind == "model_copy":
        return arr.model_copy(deep=True)
    if kind == "cast_self":
        return arr.cast_to(arr.dims)
    if kind == "getitem_all":
        return arr[{}] if arr.dims.ndim else arr
    raise ValueError(kind)
