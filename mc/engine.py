"""Exhaustive-enumeration driver shared by all checks.

A check module provides

    PROPERTY, LEVEL, RULE, ASSUMPTIONS
    units(tier, seed)      -> list of JSON-serialisable work units (a complete, ordered listing of
                              the bounded space; nothing is sampled)
    run_unit(unit)         -> dict(evals, nontrivial, outcomes{class: n}, fails[...], samples[...],
                              optional states / transitions / traces)
    replay(case)           -> list of failures when the recorded case is re-executed with plain
                              flodym calls (empty list = passes)

Work units are spread over a fork pool of long-lived workers (flodym imported once in the parent).
Every failure is re-executed in the parent, twice, before it is reported: a failure that does not
reproduce is a machinery error (exit 2), never a VIOLATION.
"""

import hashlib
import json
import multiprocessing as mp
import os
import signal
import sys
import time
import traceback
from collections import Counter

from . import env, evidence, findings

MAX_FAILS_PER_UNIT = 25
MAX_REPLAY_FILES = 12


class UnitTimeout(Exception):
    pass


def _alarm(signum, frame):
    raise UnitTimeout()


_MODULE = None
_UNIT_TIMEOUT = 300


def _worker(unit):
    signal.signal(signal.SIGALRM, _alarm)
    signal.alarm(_UNIT_TIMEOUT)
    try:
        res = _MODULE.run_unit(unit)
    except UnitTimeout:
        res = dict(
            evals=1,
            nontrivial=0,
            outcomes={"timeout": 1},
            fails=[
                dict(
                    case={"unit": unit, "whole_unit": True},
                    tags={"kind": "timeout"},
                    what=f"work unit did not finish within {_UNIT_TIMEOUT}s",
                )
            ],
            samples=[],
        )
    except Exception as e:  # an exception escaping the per-case guards of a check
        res = dict(
            evals=1,
            nontrivial=0,
            outcomes={"unit-crash": 1},
            fails=[
                dict(
                    case={"unit": unit, "whole_unit": True},
                    tags={"kind": "unit-crash"},
                    what="unexpected exception while exploring this unit: "
                    + "".join(traceback.format_exception_only(type(e), e)).strip()[:500],
                    trace=traceback.format_exc()[-3000:],
                )
            ],
            samples=[],
        )
    finally:
        signal.alarm(0)
    res["fails"] = res.get("fails", [])[:MAX_FAILS_PER_UNIT]
    for f in res["fails"]:
        f.setdefault("unit", unit)
    return res


def _fresh_unit_run(unit):
    """run one work unit in a freshly forked process (no state left over from other units)"""
    ctx = mp.get_context("fork")
    with ctx.Pool(1, maxtasksperchild=1) as p:
        return p.apply(_worker, (unit,))


def _replay_case(case):
    try:
        return _MODULE.replay(case)
    except Exception as e:
        return [dict(what="replay raised " + repr(e))]


def _fresh_case_replay(case):
    ctx = mp.get_context("fork")
    with ctx.Pool(1, maxtasksperchild=1) as p:
        return p.apply(_replay_case, (case,))


def jsonable(x):
    import numpy as np

    if isinstance(x, dict):
        return {str(k): jsonable(v) for k, v in x.items()}
    if isinstance(x, (list, tuple, set, frozenset)):
        return [jsonable(v) for v in x]
    if isinstance(x, (np.integer,)):
        return int(x)
    if isinstance(x, (np.floating,)):
        return float(x)
    if isinstance(x, np.ndarray):
        return x.tolist()
    if isinstance(x, float):
        if x != x:
            return "NaN"
        if x in (float("inf"), float("-inf")):
            return str(x)
        return x
    if isinstance(x, (str, int, bool)) or x is None:
        return x
    return repr(x)


def run(module, tier, replay_path=None):
    global _MODULE, _UNIT_TIMEOUT
    _MODULE = module
    pid = module.PROPERTY
    seed = env.seed()
    if replay_path:
        return _replay_file(module, replay_path)
    t0 = time.time()
    _UNIT_TIMEOUT = 240 if tier == "quick" else 1800
    units = list(module.units(tier, seed))
    n_units = len(units)
    workers = min(env.n_workers(), max(1, n_units))
    agg = dict(evals=0, nontrivial=0, states=0, transitions=0, traces=0)
    outcomes = Counter()
    extra = Counter()
    fails = []
    samples = []
    # every work unit runs in a freshly forked process (maxtasksperchild=1, chunksize=1): state that the
    # implementation keeps across calls (module-level caches, mutable defaults) can then only come from
    # the unit's own history, which makes every failure reproducible from its unit alone
    # VERIF_FAILFAST=1 (used only when seeded changes are re-verified): stop exploring after the first work unit with a
    # failure that is not a known finding; the evidence then says exhaustive=False
    failfast = os.environ.get("VERIF_FAILFAST") == "1"
    stopped_early = False
    ctx = mp.get_context("fork")
    pool = ctx.Pool(workers, maxtasksperchild=1)
    it = pool.imap(_worker, units, chunksize=1)
    try:
        for res in it:
            agg["evals"] += res.get("evals", 0)
            agg["nontrivial"] += res.get("nontrivial", 0)
            agg["states"] += res.get("states", 0)
            agg["transitions"] += res.get("transitions", 0)
            agg["traces"] += res.get("traces", 0)
            outcomes.update(res.get("outcomes", {}))
            extra.update(res.get("extra", {}))
            fails.extend(res.get("fails", []))
            if len(samples) < 6:
                samples.extend(res.get("samples", [])[: 6 - len(samples)])
            if failfast and res.get("fails") and findings.split(pid, res["fails"])[1]:
                stopped_early = True
                break
    finally:
        if pool is not None:
            if stopped_early:
                pool.terminate()
            else:
                pool.close()
            pool.join()
    # ---- triage -------------------------------------------------------------------------
    known, unknown = findings.split(pid, fails)
    confirmed = []
    for f in unknown[:8]:
        case = f.get("case", {})
        if case.get("whole_unit"):
            confirmed.append(f)
            continue
        ok = 0
        for _ in range(2):
            if _fresh_case_replay(case):
                ok += 1
        if ok < 2:
            # The single case does not reproduce on its own. That happens when the implementation keeps
            # state across calls (module-level caches, mutable defaults): then the failing HISTORY is the
            # work unit executed from a fresh process. Re-run the whole unit in two freshly forked
            # processes; only if the same failure appears in both is it reported (replay = the unit).
            unit = f.get("unit")
            hits = 0
            for _ in range(2):
                try:
                    again = _fresh_unit_run(unit) if unit is not None else {}
                except Exception:
                    again = {}
                if any(g.get("what") == f.get("what") for g in again.get("fails", [])):
                    hits += 1
            if hits < 2:
                print(f"MACHINERY-ERROR property={pid}: failure did not reproduce (case {ok}/2, unit {hits}/2): {f.get('what')}")
                print(json.dumps(jsonable(case))[:2000])
                return 2
            f = dict(f)
            f["case"] = {"unit": unit, "whole_unit": True, "first_failing_case": case}
            f["what"] = "[needs the history of its work unit: state kept across calls] " + str(f.get("what"))
        confirmed.append(f)
    wall = time.time() - t0
    # ---- evidence -----------------------------------------------------------------------
    if not samples:
        samples = [jsonable(units[0])] if units else []
    cov = dict(
        evaluations=agg["evals"],
        distinct_nontrivial=agg["nontrivial"],
        rule=module.RULE,
        samples=jsonable(samples[:6]),
        exhaustive=not stopped_early,
        work_units=n_units,
        outcome_classes=dict(sorted(outcomes.items())),
        distinct_outcome_classes=len(outcomes),
        failures_total=len(fails),
        failures_known=len(known_fail_list(known)),
        workers=workers,
    )
    if extra:
        cov["counters"] = dict(sorted(extra.items()))
    if module.LEVEL == "model_checking":
        cov["states"] = agg["states"]
        cov["transitions"] = agg["transitions"]
        cov["traces_validated_against_impl"] = agg["traces"]
    bounds = getattr(module, "bounds", None)
    if bounds:
        cov["bounds"] = bounds(tier)
    evidence.write(
        pid,
        tier,
        seed,
        module.LEVEL,
        cov,
        list(module.ASSUMPTIONS),
        wall,
        len(unknown),
    )
    # ---- report -------------------------------------------------------------------------
    for entry, flist in known:
        print(f"KNOWN-FINDING: property={pid} {entry['what']} [{len(flist)} case(s), id={entry['id']}]")
    print(
        f"{pid} tier={tier} seed={seed} units={n_units} evaluations={agg['evals']} "
        f"nontrivial={agg['nontrivial']} outcome_classes={len(outcomes)} "
        + (f"states={agg['states']} transitions={agg['transitions']} " if agg["states"] else "")
        + f"failures={len(fails)} unknown={len(unknown)} wall={wall:.1f}s"
    )
    if not unknown:
        return 0
    seen_classes = set()
    written = 0
    for f in confirmed + unknown[8:]:
        cls = json.dumps(jsonable(f.get("tags", {})), sort_keys=True)
        if cls in seen_classes:
            continue
        seen_classes.add(cls)
        path = write_replay(pid, f)
        print(f"VIOLATION property={pid} replay={path}")
        print(f"  what: {f.get('what')}")
        written += 1
        if written >= MAX_REPLAY_FILES:
            break
    return 1


def known_fail_list(known):
    out = []
    for _, fl in known:
        out.extend(fl)
    return out


def write_replay(pid, f):
    body = jsonable(
        dict(
            property=pid,
            case=f.get("case"),
            tags=f.get("tags", {}),
            what=f.get("what"),
            observed=f.get("observed"),
            expected=f.get("expected"),
            trace=f.get("trace"),
        )
    )
    blob = json.dumps(body, sort_keys=True, indent=1)
    h = hashlib.sha1(json.dumps(body.get("case"), sort_keys=True).encode()).hexdigest()[:12]
    d = os.path.join(env.VERIF_DIR, "replays", pid)
    os.makedirs(d, exist_ok=True)
    path = os.path.join(d, h + ".json")
    with open(path, "w") as fh:
        fh.write(blob + "\n")
    return path


def _replay_file(module, path):
    with open(path) as fh:
        body = json.load(fh)
    case = body["case"]
    if case.get("whole_unit"):
        res = _worker(case["unit"])
        fl = res.get("fails", [])
    else:
        fl = module.replay(case)
    if fl:
        print(f"VIOLATION property={module.PROPERTY} replay={path}")
        for f in fl[:5]:
            print("  what:", f.get("what"))
            if f.get("observed") is not None:
                print("  observed:", json.dumps(jsonable(f.get("observed")))[:1500])
            if f.get("expected") is not None:
                print("  expected:", json.dumps(jsonable(f.get("expected")))[:1500])
        return 1
    print(f"replay passes: property={module.PROPERTY} {path}")
    return 0
