"""Self-test of the reference model / observation layer: a transposition between equal-length
dimensions (which keeps the shape) must be visible, and the separating alphabets must separate.
Run:  /venv/bin/python -B selftest/toy_model.py"""
import os
import sys

os.environ.setdefault("_MC_BOOT", "1")
os.environ.setdefault("PYTHONHASHSEED", "0")
sys.path.insert(0, os.path.dirname(os.path.dirname(os.path.abspath(__file__))))
from mc import env

env.bootstrap()
import numpy as np

from mc import observe, refmodel as R, spaces as S


def main():
    items = S.items_for("all2")
    f = S.val_base(4, 1)(("a", "b"), items)
    X = S.flodym_array(("a", "b"), items, f)
    m = R.build(("a", "b"), items, f)
    assert m.diff(observe.arr(X)) is None
    X.values[...] = X.values.T.copy()  # planted silent transposition (shape unchanged)
    assert m.diff(observe.arr(X)) is not None
    # marginal sums of distinct powers of two identify exactly which entries were added
    p = S.val_pow2(0)(("a", "b", "c"), items)
    mm = R.build(("a", "b", "c"), items, p)
    sums = set(R.marginal(mm, ("a",)).data.values()) | set(R.marginal(mm, ("b",)).data.values()) | set(R.marginal(mm, ("c",)).data.values())
    assert len(sums) == 6
    # provenances give the same labelled content
    for prov in S.PROVENANCES + ("Cint",):
        Y = S.flodym_array(("a", "b", "c"), items, S.val_base(4, 1)(("a", "b", "c"), items), prov)
        assert R.build(("a", "b", "c"), items, S.val_base(4, 1)(("a", "b", "c"), items)).diff(observe.arr(Y)) is None, prov
    print("selftest ok: transposition visible, alphabets separating, provenances equivalent by label")


if __name__ == "__main__":
    main()
