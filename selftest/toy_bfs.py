"""Self-test of the E2 engine on toys with planted bugs: the explorer must find the shortest
violating history of (a) a stale cache, (b) an aliasing return value, and stay silent on the
correct variants.  Run:  /venv/bin/python -B selftest/toy_bfs.py"""
import os
import sys

sys.path.insert(0, os.path.dirname(os.path.dirname(os.path.abspath(__file__))))
from mc import bfs


class Cached:
    def __init__(self, buggy):
        self.x, self._sq, self.buggy = 1, None, buggy

    def set(self, v):
        self.x = v
        if not self.buggy:
            self._sq = None

    def square(self):
        if self._sq is None:
            self._sq = self.x * self.x
        return self._sq


def run_cache(buggy):
    ops = [("set", 1), ("set", 2), ("set", 3), ("square",)]

    def apply(st, op, check):
        if op[0] == "set":
            st.set(op[1])
            return "set", None
        got = st.square()
        if check and got != st.x * st.x:
            return "fail", dict(what=f"square() = {got} for x = {st.x}")
        return "ok", None

    return bfs.explore(lambda: Cached(buggy), ops, apply, lambda s: (s.x, s._sq), 3)


class Sets:
    def __init__(self, buggy):
        self.r, self.s, self.buggy = [1, 2], None, buggy

    def sub(self):
        self.s = self.r if self.buggy else list(self.r)

    def push(self):
        if self.s is not None:
            self.s.append(9)


def run_alias(buggy):
    ops = ["sub", "push"]

    def apply(st, op, check):
        getattr(st, op)()
        if check and st.r != [1, 2]:
            return "fail", dict(what=f"receiver changed to {st.r}")
        return "ok", None

    return bfs.explore(lambda: Sets(buggy), ops, apply, lambda s: (tuple(s.r), None if s.s is None else tuple(s.s), s.s is s.r), 3)


def main():
    r = run_cache(True)
    assert r["fails"] and len(r["fails"][0]["case"]["history"]) == 3, r["fails"]  # square, set, square
    assert not run_cache(False)["fails"]
    r = run_alias(True)
    assert r["fails"] and r["fails"][0]["case"]["history"] == ["sub", "push"], r["fails"]
    assert not run_alias(False)["fails"]
    print("selftest ok: planted stale-cache and aliasing bugs found with shortest histories; correct variants silent")


if __name__ == "__main__":
    main()
